package locks

import (
	"bytes"
	"fmt"
	"sync/atomic"
	"testing"
	"time"

	"github.com/hydraide/hydraide/app/core/hydra/swamp/treasure"
	"github.com/hydraide/hydraide/app/core/hydra/swamp/treasure/guard"
	"pgregory.net/rapid"

	"verifharness/internal/pbt"
)

// C15 — Record guard gives exclusive, arrival-ordered access.
//
// A scenario is a sequence of steps issued by a single controller on behalf of
// logical actors. A blocking StartTreasureGuard(true) runs in its own
// goroutine; before the next step the controller observes (runtime.Stack) that
// the goroutine is parked in sync.Cond.Wait inside StartTreasureGuard or has
// returned, so the interleaving is a deterministic function of the step list.
//
// Model: FIFO queue of unique tickets (acquisition instances). The head is the
// holder. A release that does not come from the head's own acquisition
// instance (duplicate, stale, foreign, never-issued value) must change nothing.

const (
	c15StartWait = "sw"    // StartTreasureGuard(true) by an idle actor
	c15StartTry  = "sn"    // StartTreasureGuard(false) by an idle actor
	c15Release   = "rel"   // holder releases its own current ticket
	c15Dup       = "dup"   // idle actor releases again the ticket it released last
	c15Stale     = "stale" // idle actor releases one of its older, already released tickets (P picks)
	c15Foreign   = "for"   // idle actor releases a ticket another actor already released (P picks), or a never-issued value
)

type C15Step struct {
	K string `json:"k"`
	A int    `json:"a"`
	P int    `json:"p,omitempty"`
}

type C15Scenario struct {
	Actors      int       `json:"actors"`
	ViaTreasure bool      `json:"via_treasure,omitempty"` // guard embedded in treasure.New(nil)
	Steps       []C15Step `json:"steps"`
}

// --- model -----------------------------------------------------------------

type c15Acq struct {
	actor    int
	epoch    int   // model epoch (number of times the queue became empty before issuance)
	id       int64 // value returned by the real guard (0 until known)
	released bool  // released by its owner
}

const (
	stIdle = iota
	stWaiting
	stHolding
)

type c15Model struct {
	queue []*c15Acq
	epoch int
	state []int
	cur   []*c15Acq   // current acquisition per actor (waiting or holding)
	done  [][]*c15Acq // per actor: acquisitions it has released, oldest first
}

func newC15Model(n int) *c15Model {
	return &c15Model{state: make([]int, n), cur: make([]*c15Acq, n), done: make([][]*c15Acq, n)}
}

func (m *c15Model) holder() *c15Acq {
	if len(m.queue) == 0 {
		return nil
	}
	return m.queue[0]
}

// enqueue models a successful ticket issuance; returns true when the actor
// becomes the holder immediately.
func (m *c15Model) enqueue(a int) (*c15Acq, bool) {
	q := &c15Acq{actor: a, epoch: m.epoch}
	m.queue = append(m.queue, q)
	m.cur[a] = q
	if len(m.queue) == 1 {
		m.state[a] = stHolding
		return q, true
	}
	m.state[a] = stWaiting
	return q, false
}

// releaseHead models the holder's own release; returns the acquisition that
// is admitted next (nil when the queue became empty).
func (m *c15Model) releaseHead() *c15Acq {
	h := m.queue[0]
	h.released = true
	m.queue = m.queue[1:]
	m.state[h.actor] = stIdle
	m.cur[h.actor] = nil
	m.done[h.actor] = append(m.done[h.actor], h)
	if len(m.queue) == 0 {
		m.epoch++
		return nil
	}
	n := m.queue[0]
	m.state[n.actor] = stHolding
	return n
}

// target resolves which already released acquisition (or never-issued value)
// a dup/stale/foreign step refers to. ok=false: the step is not applicable.
// earlierEpochOnly / sameEpochOnly restrict the choice (generator use).
func (m *c15Model) target(s C15Step) (acq *c15Acq, raw int64, ok bool) {
	if s.A < 0 || s.A >= len(m.state) || m.state[s.A] != stIdle {
		return nil, 0, false
	}
	switch s.K {
	case c15Dup:
		d := m.done[s.A]
		if len(d) == 0 {
			return nil, 0, false
		}
		return d[len(d)-1], 0, true
	case c15Stale:
		d := m.done[s.A]
		if len(d) < 2 {
			return nil, 0, false
		}
		p := s.P
		if p < 0 {
			p = -p
		}
		return d[p%(len(d)-1)], 0, true
	case c15Foreign:
		var pool []*c15Acq
		for a := range m.done {
			if a != s.A {
				pool = append(pool, m.done[a]...)
			}
		}
		p := s.P
		if p < 0 {
			p = -p
		}
		// three never-issued values are always available
		never := []int64{0, -1, 1 << 40}
		k := p % (len(pool) + len(never))
		if k < len(pool) {
			return pool[k], 0, true
		}
		return nil, never[k-len(pool)], true
	}
	return nil, 0, false
}

// --- generator ---------------------------------------------------------------

// genC15 simulates the model while drawing so that most steps are applicable.
// crossEpoch=false leaves out releases of tickets issued in an earlier epoch
// (the trigger of the open finding "ids-restart-after-queue-empties").
func genC15(crossEpoch bool, force func(m *c15Model, steps []C15Step) *C15Step) func(t *rapid.T) C15Scenario {
	return func(t *rapid.T) C15Scenario {
		var s C15Scenario
		s.Actors = rapid.IntRange(2, 6).Draw(t, "actors")
		s.ViaTreasure = rapid.IntRange(0, 3).Draw(t, "via") == 0
		n := rapid.IntRange(1, 40).Draw(t, "nsteps")
		m := newC15Model(s.Actors)
		for i := 0; i < n; i++ {
			if force != nil {
				if f := force(m, s.Steps); f != nil {
					s.Steps = append(s.Steps, *f)
					c15Apply(m, *f)
					continue
				}
			}
			var cands []C15Step
			var idle, hold []int
			for a := 0; a < s.Actors; a++ {
				switch m.state[a] {
				case stIdle:
					idle = append(idle, a)
				case stHolding:
					hold = append(hold, a)
				}
			}
			okEpoch := func(st C15Step) bool {
				acq, _, ok := m.target(st)
				if !ok {
					return false
				}
				if !crossEpoch && acq != nil && acq.epoch != m.epoch {
					return false
				}
				return true
			}
			kind := rapid.IntRange(0, 99).Draw(t, "kind")
			pickIdle := func() (int, bool) {
				if len(idle) == 0 {
					return 0, false
				}
				return idle[rapid.IntRange(0, len(idle)-1).Draw(t, "idle")], true
			}
			switch {
			case kind < 30:
				if a, ok := pickIdle(); ok {
					cands = append(cands, C15Step{K: c15StartWait, A: a})
				}
			case kind < 40:
				if a, ok := pickIdle(); ok {
					cands = append(cands, C15Step{K: c15StartTry, A: a})
				}
			case kind < 65:
				if len(hold) > 0 {
					cands = append(cands, C15Step{K: c15Release, A: hold[0]})
				}
			default:
				if a, ok := pickIdle(); ok {
					k := []string{c15Dup, c15Dup, c15Stale, c15Foreign}[rapid.IntRange(0, 3).Draw(t, "relkind")]
					st := C15Step{K: k, A: a, P: rapid.IntRange(0, 15).Draw(t, "pick")}
					if okEpoch(st) {
						cands = append(cands, st)
					} else if st.K = c15Dup; okEpoch(st) {
						cands = append(cands, st)
					}
				}
			}
			if len(cands) == 0 {
				// fall back to something applicable: release if held, else start
				if len(hold) > 0 && (len(idle) == 0 || rapid.Bool().Draw(t, "fb")) {
					cands = append(cands, C15Step{K: c15Release, A: hold[0]})
				} else if len(idle) > 0 {
					cands = append(cands, C15Step{K: c15StartWait, A: idle[0]})
				} else {
					continue
				}
			}
			st := cands[0]
			s.Steps = append(s.Steps, st)
			c15Apply(m, st)
		}
		return s
	}
}

// c15Apply advances the model by one step (pure; shared by generator and oracle).
func c15Apply(m *c15Model, s C15Step) {
	if s.A < 0 || s.A >= len(m.state) {
		return
	}
	switch s.K {
	case c15StartWait:
		if m.state[s.A] == stIdle {
			m.enqueue(s.A)
		}
	case c15StartTry:
		if m.state[s.A] == stIdle && len(m.queue) == 0 {
			m.enqueue(s.A)
		}
	case c15Release:
		if m.state[s.A] == stHolding {
			m.releaseHead()
		}
	}
}

// --- execution ---------------------------------------------------------------

var hangSeen atomic.Bool

func curHangBound() time.Duration {
	if hangSeen.Load() {
		return 5 * time.Second // only while shrinking an already established failure
	}
	return pbt.Bound(hangBound)
}

type c15Actor struct {
	gid int64
	res chan int64 // result of the outstanding blocking Start
}

const guardStartFn = "guard.(*guard).StartTreasureGuard"

func runC15(s C15Scenario) pbt.Outcome {
	if s.Actors < 1 || s.Actors > 16 {
		return pbt.Outcome{Skip: true}
	}
	var g guard.Guard
	if s.ViaTreasure {
		g = treasure.New(nil)
	} else {
		g = guard.New()
	}
	m := newC15Model(s.Actors)
	actors := make([]c15Actor, s.Actors)
	var maxID int64
	outstanding := 0

	// best-effort cleanup so that no goroutine stays parked on a dead guard
	defer func() {
		if outstanding == 0 {
			return
		}
		deadline := time.Now().Add(2 * time.Second)
		for outstanding > 0 && time.Now().Before(deadline) {
			for id := int64(0); id <= maxID+int64(s.Actors)+2; id++ {
				g.ReleaseTreasureGuard(guard.ID(id))
			}
			for a := range actors {
				if actors[a].res == nil {
					continue
				}
				select {
				case id := <-actors[a].res:
					actors[a].res = nil
					outstanding--
					if id > maxID {
						maxID = id
					}
				default:
				}
			}
			time.Sleep(200 * time.Microsecond)
		}
	}()

	// settle waits until actor a's outstanding Start has returned (id, true) or
	// its goroutine is parked in Cond.Wait inside StartTreasureGuard (0, false).
	settle := func(a int) (int64, bool, bool) {
		bo := newBackoff()
		for {
			select {
			case id := <-actors[a].res:
				actors[a].res = nil
				outstanding--
				if id > maxID {
					maxID = id
				}
				return id, true, true
			default:
			}
			if parkedIn(actors[a].gid, "sync.Cond.Wait", guardStartFn) {
				// it may have been woken and returned in between: look once more
				select {
				case id := <-actors[a].res:
					actors[a].res = nil
					outstanding--
					if id > maxID {
						maxID = id
					}
					return id, true, true
				default:
				}
				return 0, false, true
			}
			if bo.elapsed() > curHangBound() {
				return 0, false, false
			}
			bo.wait()
		}
	}

	start := func(a int, waiting bool) {
		res := make(chan int64, 1)
		gidc := make(chan int64, 1)
		go func() {
			gidc <- goid()
			res <- int64(g.StartTreasureGuard(waiting))
		}()
		actors[a] = c15Actor{gid: <-gidc, res: res}
		outstanding++
	}

	release := func(id int64) bool {
		done := make(chan struct{})
		go func() { g.ReleaseTreasureGuard(guard.ID(id)); close(done) }()
		select {
		case <-done:
			return true
		case <-time.After(curHangBound()):
			return false
		}
	}

	canExec := func(id int64) (err error) {
		defer func() {
			if r := recover(); r != nil {
				err = fmt.Errorf("panic: %v", r)
			}
		}()
		return g.CanExecute(guard.ID(id))
	}

	// invariant check after every step: every actor the model has waiting must
	// be parked (one stack dump for all of them), nobody may have returned.
	check := func(i int, st C15Step) *pbt.Outcome {
		bo := newBackoff()
		for {
			var ids []int64
			for a := range actors {
				if m.state[a] != stWaiting {
					continue
				}
				select {
				case id := <-actors[a].res:
					actors[a].res = nil
					outstanding--
					if id > maxID {
						maxID = id
					}
					h := m.holder()
					o := pbt.Failf("two-holders", "step %d %v: waiting actor %d was admitted (id %d) although actor %d still holds the guard (id %d) and %d ticket(s) are ahead of it",
						i, st, a, id, h.actor, h.id, posOf(m, a))
					return &o
				default:
				}
				ids = append(ids, actors[a].gid)
			}
			if len(ids) == 0 {
				break
			}
			snap := snapshot(ids...)
			all := true
			for _, id := range ids {
				g, ok := snap[id]
				if !ok || g.state != "sync.Cond.Wait" || !bytes.Contains(g.stack, []byte(guardStartFn)) {
					all = false
				}
			}
			if all {
				break
			}
			if bo.elapsed() > curHangBound() {
				hangSeen.Store(true)
				o := pbt.Failf("hang", "step %d %v: a waiting actor is neither parked in the guard nor returned", i, st)
				return &o
			}
			bo.wait()
		}
		if h := m.holder(); h != nil {
			if err := canExec(h.id); err != nil {
				o := pbt.Failf("holder-lost", "step %d %v: holder actor %d (id %d) no longer owns the guard: CanExecute: %v", i, st, h.actor, h.id, err)
				return &o
			}
		}
		return nil
	}

	// releaseAndAdmit performs the holder's own release and requires that the
	// next ticket in arrival order (and nobody else) is admitted.
	releaseAndAdmit := func(where string) *pbt.Outcome {
		fail := func(shape, f string, a ...any) *pbt.Outcome {
			o := pbt.Failf(shape, where+": "+f, a...)
			return &o
		}
		h := m.queue[0]
		if !release(h.id) {
			hangSeen.Store(true)
			return fail("hang", "ReleaseTreasureGuard did not return")
		}
		next := m.releaseHead()
		if next == nil {
			return nil
		}
		bo := newBackoff()
		for {
			id, returned, ok := settle(next.actor)
			if !ok {
				hangSeen.Store(true)
				return fail("hang", "after the holder's release the next waiter (actor %d) is neither parked nor returned", next.actor)
			}
			if returned {
				if id == 0 {
					return fail("zero-id", "admitted waiter got id 0")
				}
				next.id = id
				return nil
			}
			// next is parked. Release broadcasts synchronously, so with a correct
			// guard this never happens; keep polling up to the bound and report
			// who (if anybody) got in instead.
			for a := range actors {
				if a != next.actor && m.state[a] == stWaiting && actors[a].res != nil {
					select {
					case id2 := <-actors[a].res:
						actors[a].res = nil
						outstanding--
						if id2 > maxID {
							maxID = id2
						}
						return fail("fifo", "after the release actor %d (id %d) was admitted before actor %d which arrived earlier", a, id2, next.actor)
					default:
					}
				}
			}
			if bo.elapsed() > curHangBound() {
				hangSeen.Store(true)
				return fail("hang", "holder released but the next waiter in arrival order (actor %d) stays parked", next.actor)
			}
			bo.wait()
		}
	}

	var nDup, nDupWhileHeld, nCross, nWaiters, nTryFail, nApplied int
	for i, st := range s.Steps {
		if st.A < 0 || st.A >= s.Actors {
			continue
		}
		switch st.K {
		case c15StartWait:
			if m.state[st.A] != stIdle {
				continue
			}
			nApplied++
			acq, immediate := m.enqueue(st.A)
			start(st.A, true)
			id, returned, ok := settle(st.A)
			if !ok {
				hangSeen.Store(true)
				return pbt.Failf("hang", "step %d %v: StartTreasureGuard(true) neither returned nor parked", i, st)
			}
			if immediate {
				if !returned {
					// parked although the queue is empty in the model
					return pbt.Failf("blocked-on-free-guard", "step %d %v: StartTreasureGuard(true) blocks although nobody holds or waits", i, st)
				}
				if id == 0 {
					return pbt.Failf("zero-id", "step %d %v: StartTreasureGuard(true) returned 0", i, st)
				}
				acq.id = id
			} else {
				nWaiters++
				if returned {
					h := m.queue[0]
					return pbt.Failf("two-holders", "step %d %v: StartTreasureGuard(true) returned id %d at once although actor %d holds the guard (id %d)", i, st, id, h.actor, h.id)
				}
			}
		case c15StartTry:
			if m.state[st.A] != stIdle {
				continue
			}
			nApplied++
			free := len(m.queue) == 0
			start(st.A, false)
			bo := newBackoff()
			var id int64
			got := false
			for !got {
				select {
				case id = <-actors[st.A].res:
					actors[st.A].res = nil
					outstanding--
					got = true
				default:
					if bo.elapsed() > curHangBound() {
						hangSeen.Store(true)
						return pbt.Failf("hang", "step %d %v: StartTreasureGuard(false) did not return", i, st)
					}
					bo.wait()
				}
			}
			if id > maxID {
				maxID = id
			}
			if free {
				if id == 0 {
					return pbt.Failf("try-refused", "step %d %v: StartTreasureGuard(false) returned 0 although nobody holds or waits", i, st)
				}
				acq, _ := m.enqueue(st.A)
				acq.id = id
			} else {
				nTryFail++
				if id != 0 {
					h := m.queue[0]
					return pbt.Failf("two-holders", "step %d %v: StartTreasureGuard(false) returned id %d although actor %d holds the guard (id %d, %d waiting)", i, st, id, h.actor, h.id, len(m.queue)-1)
				}
			}
		case c15Release:
			if m.state[st.A] != stHolding {
				continue
			}
			nApplied++
			if f := releaseAndAdmit(fmt.Sprintf("step %d %v", i, st)); f != nil {
				return *f
			}
		case c15Dup, c15Stale, c15Foreign:
			acq, raw, ok := m.target(st)
			if !ok {
				continue
			}
			nApplied++
			id := raw
			if acq != nil {
				id = acq.id
				if acq.epoch != m.epoch {
					nCross++
				}
			}
			if st.K != c15Foreign {
				nDup++
				if h := m.holder(); h != nil && h.actor != st.A {
					nDupWhileHeld++
				}
			}
			if !release(id) {
				hangSeen.Store(true)
				return pbt.Failf("hang", "step %d %v: ReleaseTreasureGuard(%d) did not return", i, st, id)
			}
		default:
			continue
		}
		if f := check(i, st); f != nil {
			if st.K == c15Dup || st.K == c15Stale || st.K == c15Foreign {
				f.Fail += fmt.Sprintf(" — after a release with a ticket that is not the holder's (kind %s)", st.K)
			}
			return *f
		}
	}

	// drain: release in model order; everybody must be admitted in arrival order
	for len(m.queue) > 0 {
		if f := releaseAndAdmit("drain"); f != nil {
			return *f
		}
		if f := check(len(s.Steps), C15Step{K: "drain"}); f != nil {
			return *f
		}
	}

	out := pbt.Outcome{NonTrivial: nDupWhileHeld > 0}
	if nDupWhileHeld > 0 {
		out.Classes = append(out.Classes, "dup-or-stale-release-while-other-holds")
	}
	if nCross > 0 {
		out.Classes = append(out.Classes, "release-of-ticket-from-earlier-epoch")
	}
	if nWaiters >= 2 {
		out.Classes = append(out.Classes, "two-or-more-waiters-queued")
	}
	if nTryFail > 0 {
		out.Classes = append(out.Classes, "non-waiting-start-refused")
	}
	if s.ViaTreasure {
		out.Classes = append(out.Classes, "via-treasure")
	}
	if nApplied < len(s.Steps) {
		out.Classes = append(out.Classes, "has-inapplicable-step")
	}
	return out
}

func posOf(m *c15Model, actor int) int {
	for i, q := range m.queue {
		if q.actor == actor {
			return i
		}
	}
	return -1
}

const c15Witness = "ids-restart-after-queue-empties"

const c15Rule = "rapid-generated step lists (1..40 steps, 2..6 logical actors) over guard.New() or treasure.New(nil): " +
	"Start(waiting) / Start(non-waiting) by idle actors, Release by the holder, duplicate / stale / foreign / never-issued releases by idle actors; " +
	"blocking Starts run in goroutines observed parked (sync.Cond.Wait in StartTreasureGuard) before the next step; " +
	"model = FIFO queue of unique tickets checked after every step (who returned, who is parked, CanExecute(holder)); " +
	"non-trivial = at least one duplicate or stale release issued while another actor holds the guard"

func TestC15Main(t *testing.T) {
	cross := true
	if pbt.Open("C15", c15Witness) {
		cross = false
		pbt.Excluded("C15", "main", "release of a ticket issued before the queue last became empty (open finding)")
	}
	pbt.Main(t, pbt.Spec[C15Scenario]{
		ID: "C15", Facet: "main", Rule: c15Rule,
		Quick: 15000, Thorough: 1000000,
		Gen: genC15(cross, nil), Run: runC15,
	})
}

// Witness: the main generator with cross-epoch releases allowed and one forced
// in: as soon as an idle actor owns a released ticket from an earlier epoch
// while another actor holds the guard, it releases that ticket again.
func TestC15WitnessIDRestart(t *testing.T) {
	force := func(m *c15Model, steps []C15Step) *C15Step {
		h := m.holder()
		if h == nil {
			return nil
		}
		if len(steps) > 0 {
			if k := steps[len(steps)-1].K; k == c15Dup || k == c15Stale {
				return nil
			}
		}
		for a := range m.state {
			if a == h.actor || m.state[a] != stIdle {
				continue
			}
			st := C15Step{K: c15Dup, A: a}
			if acq, _, ok := m.target(st); ok && acq != nil && acq.epoch != m.epoch {
				return &st
			}
		}
		return nil
	}
	pbt.Witness(t, pbt.Spec[C15Scenario]{
		ID: "C15", Facet: "witness-idrestart",
		Rule:  "main generator with releases of tickets from an earlier epoch allowed and a duplicate release forced in whenever an idle actor owns such a ticket while another actor holds",
		Quick: 300, Thorough: 3000,
		Gen: genC15(true, force), Run: runC15,
	}, c15Witness, "holder-lost", "two-holders")
}
