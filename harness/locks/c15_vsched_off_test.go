//go:build !verifvsched

package locks

// Built without the vsched overlay (e.g. when the package is compiled for C14 or
// C28): schedule plans are ignored, the burst facet still runs with the
// concurrency the Go scheduler provides by itself.
const vschedBuilt = false

func planActivate(p []C15PlanAct) {}

func planDeactivate() (hits, fired int) { return 0, 0 }
