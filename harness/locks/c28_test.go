package locks

import (
	"bytes"
	"context"
	"fmt"
	"reflect"
	"runtime"
	"sync"
	"sync/atomic"
	"testing"
	"time"
	"unsafe"

	"github.com/hydraide/hydraide/app/core/hydra/lock"
	"pgregory.net/rapid"

	"verifharness/internal/pbt"
)

// C28 — Lock bookkeeping does not grow without bound.
//
// Black-box metamorphic bound: on a fresh lock.New(), n distinct keys are
// locked and released (Unlock, or left to their TTL), while a small steady set
// of keys stays held. After every release the heap retained by the lock
// (runtime.GC x2, HeapAlloc, lock object still alive) is measured for
// n = 10^2..10^5; its growth per key ever locked must stay below 16 bytes.
// (One retained queue + map entry + key string costs well over 100 bytes.)

type C28Scenario struct {
	Sizes    []int `json:"sizes"`
	KeyLen   int   `json:"key_len"`   // length of the key strings
	TTLEvery int   `json:"ttl_every"` // every k-th key is left to its TTL instead of Unlock (0 = never)
	Held     int   `json:"held"`      // keys kept locked during the measurement (0..8)
	// Stray is a bit mask of unlock calls that cannot succeed but must not leave state behind either:
	// 1 = a second Unlock right after the successful one, 2 = a late Unlock of every TTL-expired lock after it expired,
	// 4 = Unlock of keys that were never locked (one per 4 keys), 8 = Unlock with a wrong id while the key is held.
	Stray   int `json:"stray"`
	Waiters int `json:"waiters"` // every 64th key additionally gets this many queued waiters (0..3) that are granted and unlock in turn
}

const c28BytesPerKey = 16.0

func heapNow() uint64 {
	runtime.GC()
	runtime.GC()
	var ms runtime.MemStats
	runtime.ReadMemStats(&ms)
	return ms.HeapAlloc
}

// queueCount is white-box: the number of entries in the lock's per-key map
// (lock.queues, a sync.Map, read by reflection), or -1 when the layout differs
// — then the exact clause is skipped and only the heap slope decides.
func queueCount(l lock.Lock) (n int) {
	defer func() {
		if recover() != nil {
			n = -1
		}
	}()
	v := reflect.ValueOf(l)
	if v.Kind() != reflect.Pointer {
		return -1
	}
	f := v.Elem().FieldByName("queues")
	if !f.IsValid() || f.Type() != reflect.TypeOf(sync.Map{}) {
		return -1
	}
	m := (*sync.Map)(unsafe.Pointer(f.UnsafeAddr()))
	m.Range(func(_, _ any) bool { n++; return true })
	return n
}

var c28LeakSeen atomic.Bool

// c28Grace bounds how long after the last TTL elapsed a per-key queue may still
// be linked (its watchdog has been woken but has not run yet). A leaked queue
// stays for ever, a pending watchdog goes away by itself, so the clause is
// polled and only a count that is still wrong after the grace is a violation.
func c28Grace() time.Duration {
	if c28LeakSeen.Load() {
		return 3 * time.Second // only while shrinking an established failure
	}
	return 12 * time.Second
}

// c28Quiesce waits until every watchdog goroutine is gone and then asserts the
// exact clause of the property: the lock keeps per-key state only for the keys
// that are still held.
func c28Quiesce(l lock.Lock, g0, held int, what string) *pbt.Outcome {
	start := time.Now()
	for {
		c, ng := queueCount(l), runtime.NumGoroutine()
		countOK := c < 0 || c == held
		gone := ng <= g0+held
		if countOK && gone {
			return nil
		}
		el := time.Since(start)
		if !countOK && gone && el > c28Grace() {
			c28LeakSeen.Store(true)
			return fail("queue-left-behind", "%s: every lock was released or has expired and every watchdog goroutine is gone (waited %v), yet lock.queues holds %d per-key queue(s) while %d key(s) are held: %d queue(s) left behind",
				what, el.Round(time.Millisecond), c, held, c-held)
		}
		if el > hangBound {
			if !countOK {
				c28LeakSeen.Store(true)
				return fail("queue-left-behind", "%s: %v after every lock was released or has expired lock.queues still holds %d per-key queue(s) while %d key(s) are held (%d goroutines alive, baseline %d)",
					what, el.Round(time.Millisecond), c, held, ng, g0)
			}
			return fail("hang", "%s: %d goroutines are still alive long after every lock was released or expired (baseline %d + %d held)", what, ng, g0, held)
		}
		time.Sleep(time.Millisecond)
	}
}

func c28Modes(s C28Scenario) string {
	m := "release by Unlock"
	if s.TTLEvery > 0 {
		m += fmt.Sprintf(", every %d-th key by TTL expiry", s.TTLEvery)
	}
	if s.Waiters > 0 {
		m += fmt.Sprintf(", %d queued waiters on every 64th key", s.Waiters)
	}
	if s.Stray != 0 {
		m += fmt.Sprintf(", stray-unlock mask %d", s.Stray)
	}
	return m
}

type c28Point struct {
	N        int     `json:"n"`
	Retained int64   `json:"retained_bytes"`
	Queues   int     `json:"queues_in_map"`
	PerKey   float64 `json:"bytes_per_key"`
}

// c28Measure runs one size and returns the retained bytes.
func c28Measure(s C28Scenario, n int) (c28Point, *pbt.Outcome) {
	failf := func(shape, f string, a ...any) (c28Point, *pbt.Outcome) {
		o := pbt.Failf(shape, f, a...)
		return c28Point{}, &o
	}
	pad := ""
	for len(pad) < s.KeyLen {
		pad += "k"
	}
	g0 := runtime.NumGoroutine()
	before := heapNow()
	l := lock.New()
	ctx := context.Background()
	// steady set
	type held struct{ key, id string }
	var hs []held
	for i := 0; i < s.Held; i++ {
		k := fmt.Sprintf("held-%d", i)
		id, err := l.Lock(ctx, k, c14Forever)
		if err != nil {
			return failf("lock-error", "Lock(%s): %v", k, err)
		}
		hs = append(hs, held{k, id})
	}
	ttlKeys := 0
	const ttl = 3 * time.Millisecond
	type expired struct{ key, id string }
	var late []expired
	for i := 0; i < n; i++ {
		k := fmt.Sprintf("%s%d", pad, i)
		if s.Stray&4 != 0 && i%4 == 0 {
			_ = l.Unlock(fmt.Sprintf("never-locked-%s%d", pad, i), "no-such-id")
		}
		byTTL := s.TTLEvery > 0 && i%s.TTLEvery == 0
		d := c14Forever
		if byTTL {
			d = ttl
			ttlKeys++
		}
		id, err := l.Lock(ctx, k, d)
		if err != nil {
			return failf("lock-error", "Lock(%s): %v", k, err)
		}
		if s.Waiters > 0 && i%64 == 0 && !byTTL {
			// a short queue on this key: waiters are granted in turn and unlock
			var wg sync.WaitGroup
			for w := 0; w < s.Waiters; w++ {
				wg.Add(1)
				go func() {
					defer wg.Done()
					wid, err := l.Lock(ctx, k, c14Forever)
					if err == nil {
						_ = l.Unlock(k, wid)
					}
				}()
			}
			if err := l.Unlock(k, id); err != nil {
				return failf("unlock-error", "Unlock(%s): %v", k, err)
			}
			wg.Wait()
			continue
		}
		if s.Stray&8 != 0 && i%3 == 0 {
			_ = l.Unlock(k, "wrong-"+id)
		}
		if byTTL && s.Stray&2 != 0 {
			late = append(late, expired{k, id})
		}
		if !byTTL {
			if err := l.Unlock(k, id); err != nil {
				return failf("unlock-error", "Unlock(%s): %v", k, err)
			}
			if s.Stray&1 != 0 {
				_ = l.Unlock(k, id) // duplicate: must fail and leave nothing behind
			}
		} else if ttlKeys%2000 == 0 {
			time.Sleep(2 * ttl) // keep the number of live watchdog goroutines moderate
		}
	}
	// every TTL must have fired and every watchdog must be gone: the only
	// goroutines left are the steady set's watchdogs
	if f := c28Quiesce(l, g0, s.Held, fmt.Sprintf("n=%d (%s)", n, c28Modes(s))); f != nil {
		return c28Point{}, f
	}
	// late unlocks of locks that have expired meanwhile (the deferred Unlock of a holder that overran its TTL)
	if len(late) > 0 {
		for _, e := range late {
			_ = l.Unlock(e.key, e.id)
		}
		late = nil
		if f := c28Quiesce(l, g0, s.Held, fmt.Sprintf("n=%d after the late Unlock calls (%s)", n, c28Modes(s))); f != nil {
			return c28Point{}, f
		}
	}
	after := heapNow()
	p := c28Point{N: n, Retained: int64(after) - int64(before), Queues: queueCount(l)}
	p.PerKey = float64(p.Retained) / float64(n)
	for _, h := range hs {
		if err := l.Unlock(h.key, h.id); err != nil {
			return failf("unlock-error", "Unlock(%s) of the steady set: %v", h.key, err)
		}
	}
	runtime.KeepAlive(l)
	return p, nil
}

var c28WarmOnce sync.Once

// c28Warm populates the runtime's own caches (g structs of exited goroutines,
// sudogs, timers — they live on the heap and are kept for reuse) with a
// goroutine population larger than any measurement creates. Without it the
// first large run with thousands of concurrent watchdogs adds several hundred
// KB of runtime bookkeeping to the "retained" figure; that saturates with the
// peak number of goroutines, not with the number of keys, and must not be
// mistaken for per-key lock state.
func c28Warm() {
	c28WarmOnce.Do(func() {
		for round := 0; round < 2; round++ {
			var wg sync.WaitGroup
			done := make(chan struct{})
			for i := 0; i < 8000; i++ {
				wg.Add(1)
				go func() {
					defer wg.Done()
					t := time.NewTimer(4 * time.Millisecond)
					defer t.Stop()
					select {
					case <-t.C:
					case <-done:
					}
				}()
			}
			wg.Wait()
			close(done)
		}
		heapNow()
	})
}

func runC28(s C28Scenario) pbt.Outcome {
	if len(s.Sizes) < 2 || s.Held < 0 || s.Held > 8 || s.KeyLen < 0 || s.KeyLen > 256 {
		return pbt.Outcome{Skip: true}
	}
	c28Warm()
	var pts []c28Point
	maxN := 0
	for _, n := range s.Sizes {
		if n < 1 || n > 1000000 {
			return pbt.Outcome{Skip: true}
		}
		p, f := c28Measure(s, n)
		if f != nil {
			return *f
		}
		pts = append(pts, p)
		if n > maxN {
			maxN = n
		}
	}
	// least-squares slope of retained bytes over n
	var sx, sy, sxx, sxy float64
	for _, p := range pts {
		x, y := float64(p.N), float64(p.Retained)
		sx += x
		sy += y
		sxx += x * x
		sxy += x * y
	}
	k := float64(len(pts))
	slope := (k*sxy - sx*sy) / (k*sxx - sx*sx)
	pbt.Extra("C28", "last_points", pts)
	pbt.Extra("C28", "last_slope_bytes_per_key", slope)
	if slope >= c28BytesPerKey {
		return pbt.Failf("linear-growth", "retained heap after all releases grows by %.1f bytes per key ever locked (bound %.0f): %s — key prefix of %d bytes, every %d-th left to TTL, %d held",
			slope, c28BytesPerKey, fmtPoints(pts), s.KeyLen, s.TTLEvery, s.Held)
	}
	out := pbt.Outcome{NonTrivial: maxN >= 10000}
	if s.TTLEvery > 0 {
		out.Classes = append(out.Classes, "some-keys-released-by-ttl")
	}
	if s.Held > 0 {
		out.Classes = append(out.Classes, "steady-set-held")
	}
	if s.Waiters > 0 {
		out.Classes = append(out.Classes, "keys-with-queued-waiters")
	}
	if maxN >= 100000 {
		out.Classes = append(out.Classes, "n-1e5")
	}
	return out
}

func fmtPoints(pts []c28Point) string {
	s := ""
	for i, p := range pts {
		if i > 0 {
			s += ", "
		}
		s += fmt.Sprintf("n=%d: %d B retained", p.N, p.Retained)
		if p.Queues >= 0 {
			s += fmt.Sprintf(" (%d queues in the map)", p.Queues)
		}
	}
	return s
}

func genC28(t *rapid.T) C28Scenario {
	s := C28Scenario{
		KeyLen: rapid.SampledFrom([]int{0, 8, 32, 64}).Draw(t, "keylen"),
		Held:   rapid.IntRange(0, 8).Draw(t, "held"),
	}
	s.TTLEvery = rapid.SampledFrom([]int{0, 0, 10, 3, 1}).Draw(t, "ttlevery")
	s.Waiters = rapid.IntRange(0, 3).Draw(t, "waiters")
	s.Stray = rapid.IntRange(0, 15).Draw(t, "stray")
	// the largest size dominates the slope and keeps measurement noise
	// (tens of KB of unrelated heap) far below the 16 bytes/key bound
	s.Sizes = []int{100, 1000, 10000, 100000}
	return s
}

const c28Witness = "per-key-queue-never-pruned"

const c28Rule = "fresh lock.New(); n distinct keys (n = 10^2, 10^3, 10^4, 10^5) each locked and then unlocked or left to a 3 ms TTL (every k-th key, k in {never,10,3,1}), " +
	"0..3 queued waiters on every 64th key, a drawn mix of stray Unlock calls (duplicate, late after expiry, never-locked key, wrong id), 0..8 other keys held throughout; after all watchdogs exited: runtime.GC x2 and HeapAlloc delta with the lock still alive; " +
	"exact clause: lock.queues then holds exactly one queue per held key; least-squares slope of retained bytes over n must be < 16 bytes/key; non-trivial = n >= 10^4 with every key released before the measurement"

func TestC28Main(t *testing.T) {
	sp := pbt.Spec[C28Scenario]{
		ID: "C28", Facet: "main", Rule: c28Rule,
		Quick: 6, Thorough: 60,
		Gen: genC28, Run: runC28,
	}
	if pbt.Open("C28", c28Witness) {
		// every input triggers the open finding; the facet runs as its witness
		pbt.Excluded("C28", "main", "all inputs (any released key is retained) — facet runs as witness of the open finding")
		pbt.Witness(t, sp, c28Witness, "linear-growth")
		return
	}
	pbt.Main(t, sp)
}

// --- facet "edge": Unlock issued right on the TTL expiry edge ----------------
//
// Several workers lock thousands of one-shot keys with a TTL of 1..3 ms and
// issue the Unlock at TTL + offset; a small servo (offset += step when the
// Unlock still won, -= step when the expiry won) keeps the attempts straddling
// the edge, so some Unlocks land between "timer fired" and "watchdog ran".
// Either side may win (an Unlock error is fine); afterwards nobody holds or
// waits for any of the keys, so the lock must keep no per-key state for them.

type C28Edge struct {
	Workers  int `json:"workers"`
	Attempts int `json:"attempts"` // per worker
	TTLUs    int `json:"ttl_us"`
	Off0Us   int `json:"off0_us"` // initial offset of the Unlock relative to the TTL
	StepUs   int `json:"step_us"`
	Held     int `json:"held"`
}

func runC28Edge(s C28Edge) pbt.Outcome {
	if s.Workers < 1 || s.Workers > 16 || s.Attempts < 1 || s.Attempts > 100000 || s.TTLUs < 200 || s.TTLUs > 100000 || s.StepUs < 0 || s.Held < 0 || s.Held > 8 {
		return pbt.Outcome{Skip: true}
	}
	g0 := runtime.NumGoroutine()
	l := lock.New()
	ctx := context.Background()
	type held struct{ key, id string }
	var hs []held
	for i := 0; i < s.Held; i++ {
		k := fmt.Sprintf("held-%d", i)
		id, err := l.Lock(ctx, k, c14Forever)
		if err != nil {
			return pbt.Failf("lock-error", "Lock(%s): %v", k, err)
		}
		hs = append(hs, held{k, id})
	}
	ttl := time.Duration(s.TTLUs) * time.Microsecond
	step := time.Duration(s.StepUs) * time.Microsecond
	var unlockWon, expiryWon atomic.Int64
	var lockErr atomic.Pointer[string]
	var wg sync.WaitGroup
	for w := 0; w < s.Workers; w++ {
		wg.Add(1)
		go func(w int) {
			defer wg.Done()
			off := time.Duration(s.Off0Us) * time.Microsecond
			for i := 0; i < s.Attempts; i++ {
				key := fmt.Sprintf("edge-%d-%d", w, i) // every key is used exactly once
				id, err := l.Lock(ctx, key, ttl)
				if err != nil {
					m := fmt.Sprintf("Lock(%s) on a never used key: %v", key, err)
					lockErr.CompareAndSwap(nil, &m)
					return
				}
				start := time.Now()
				for time.Since(start) < ttl+off {
				}
				if l.Unlock(key, id) == nil {
					unlockWon.Add(1)
					off += step
				} else {
					expiryWon.Add(1)
					off -= step
				}
			}
		}(w)
	}
	wg.Wait()
	if m := lockErr.Load(); m != nil {
		return pbt.Failf("lock-error", "%s", *m)
	}
	what := fmt.Sprintf("%d workers x %d one-shot keys, ttl %v, Unlock issued on the expiry edge (Unlock won %d times, expiry won %d times)", s.Workers, s.Attempts, ttl, unlockWon.Load(), expiryWon.Load())
	if f := c28Quiesce(l, g0, s.Held, what); f != nil {
		return *f
	}
	for _, h := range hs {
		if err := l.Unlock(h.key, h.id); err != nil {
			return pbt.Failf("unlock-error", "Unlock(%s) of the steady set: %v", h.key, err)
		}
	}
	if f := c28Quiesce(l, g0, 0, what+", steady set unlocked"); f != nil {
		return *f
	}
	total := int64(s.Workers * s.Attempts)
	out := pbt.Outcome{NonTrivial: total >= 1000 && unlockWon.Load() >= total/10 && expiryWon.Load() >= total/10}
	if out.NonTrivial {
		out.Classes = append(out.Classes, "attempts-straddle-the-edge")
	}
	if queueCount(l) < 0 {
		out.Classes = append(out.Classes, "map-layout-unknown-clause-skipped")
	}
	return out
}

func genC28Edge(t *rapid.T) C28Edge {
	return C28Edge{
		Workers:  rapid.IntRange(2, 6).Draw(t, "workers"),
		Attempts: rapid.IntRange(500, 1200).Draw(t, "attempts"),
		TTLUs:    rapid.SampledFrom([]int{1000, 1000, 1500, 2000, 3000}).Draw(t, "ttl"),
		Off0Us:   rapid.IntRange(-30, 60).Draw(t, "off0"),
		StepUs:   rapid.IntRange(1, 4).Draw(t, "step"),
		Held:     rapid.IntRange(0, 3).Draw(t, "held"),
	}
}

func TestC28Edge(t *testing.T) {
	pbt.Main(t, pbt.Spec[C28Edge]{
		ID: "C28", Facet: "edge",
		Rule: "fresh lock.New(); 2..6 workers x 500..1200 one-shot keys, TTL 1..3 ms, Unlock issued at TTL + offset with a servo (offset +/- 1..4 us per attempt, drawn start offset) so that the " +
			"attempts straddle the expiry edge; Unlock errors are fine; after every watchdog goroutine is gone lock.queues must hold exactly the 0..3 keys still held (polled, 12 s grace), " +
			"and nothing after they are unlocked; non-trivial = >= 1000 attempts with >= 10% won by Unlock and >= 10% won by the expiry",
		Quick: 5, Thorough: 80,
		Gen: genC28Edge, Run: runC28Edge,
	})
}

// --- facet "cancel": waiters cancelled around the holder's release -----------
//
// For batches of one-shot keys: A holds the key, B queues behind it with a
// cancellable context (observed parked in lock.Lock's select, one stack dump
// per batch), then B's context is cancelled and A unlocks within -50..+50 us of
// each other (both orders). A Lock call of B that returned nil is a real
// holder for its TTL: in a generated fraction of the cases B relies on the TTL
// (never unlocks), otherwise it unlocks; a B that got the context error holds
// nothing and is dropped. After every TTL has elapsed (the clause is polled
// with a grace of seconds against TTLs of milliseconds) the lock must keep
// per-key state only for the keys still held.

type C28Cancel struct {
	Batches    int `json:"batches"`
	BatchSize  int `json:"batch_size"`
	TTLUs      int `json:"ttl_us"`      // TTL of the waiters' locks
	Off0Us     int `json:"off0_us"`     // first offset of cancel relative to Unlock (-50..50; negative = cancel first)
	StrideUs   int `json:"stride_us"`   // offset of attempt i = ((off0+50 + i*stride) mod 101) - 50
	LeaveEvery int `json:"leave_every"` // every k-th waiter that obtained the lock relies on its TTL (1 = all of them)
	Held       int `json:"held"`
}

func runC28Cancel(s C28Cancel) pbt.Outcome {
	if s.Batches < 1 || s.Batches > 1000 || s.BatchSize < 1 || s.BatchSize > 256 || s.TTLUs < 200 || s.TTLUs > 100000 || s.LeaveEvery < 1 || s.Held < 0 || s.Held > 8 {
		return pbt.Outcome{Skip: true}
	}
	g0 := runtime.NumGoroutine()
	l := lock.New()
	bg := context.Background()
	type heldKey struct{ key, id string }
	var hs []heldKey
	for i := 0; i < s.Held; i++ {
		k := fmt.Sprintf("held-%d", i)
		id, err := l.Lock(bg, k, c14Forever)
		if err != nil {
			return pbt.Failf("lock-error", "Lock(%s): %v", k, err)
		}
		hs = append(hs, heldKey{k, id})
	}
	ttl := time.Duration(s.TTLUs) * time.Microsecond
	type waiter struct {
		key    string
		aID    string
		cancel context.CancelFunc
		gid    int64
		res    chan lockRes
	}
	var granted, leftToTTL, ctxErr, attempt int
	for b := 0; b < s.Batches; b++ {
		ws := make([]*waiter, s.BatchSize)
		ids := make([]int64, s.BatchSize)
		for i := range ws {
			key := fmt.Sprintf("cx-%d-%d", b, i)
			aID, err := l.Lock(bg, key, c14Forever)
			if err != nil {
				return pbt.Failf("lock-error", "Lock(%s) on a never used key: %v", key, err)
			}
			ctx, cancel := context.WithCancel(bg)
			w := &waiter{key: key, aID: aID, cancel: cancel, res: make(chan lockRes, 1)}
			gidc := make(chan int64, 1)
			go func() {
				gidc <- goid()
				id, err := l.Lock(ctx, key, ttl)
				w.res <- lockRes{id: id, err: err}
			}()
			w.gid = <-gidc
			ws[i], ids[i] = w, w.gid
		}
		// all waiters of the batch must be queued (parked in the select of lock.Lock)
		bo := newBackoff()
		for {
			snap := snapshot(ids...)
			all := true
			for _, id := range ids {
				g, ok := snap[id]
				if !ok || g.state != "select" || !bytes.Contains(g.stack, []byte(lockFn)) {
					all = false
					break
				}
			}
			if all {
				break
			}
			if bo.elapsed() > curHangBound() {
				hangSeen.Store(true)
				return pbt.Failf("hang", "batch %d: a waiter queued behind a non-expiring holder is neither parked in lock.Lock nor returned", b)
			}
			bo.wait()
		}
		for _, w := range ws {
			off := time.Duration(((s.Off0Us+50+attempt*s.StrideUs)%101+101)%101-50) * time.Microsecond
			attempt++
			var uerr error
			if off <= 0 {
				w.cancel()
				spinFor(-off)
				uerr = l.Unlock(w.key, w.aID)
			} else {
				uerr = l.Unlock(w.key, w.aID)
				spinFor(off)
				w.cancel()
			}
			if uerr != nil {
				return pbt.Failf("unlock-error", "Unlock(%s) of a non-expiring holder: %v", w.key, uerr)
			}
		}
		for _, w := range ws {
			var r lockRes
			select {
			case r = <-w.res:
			case <-time.After(curHangBound()):
				hangSeen.Store(true)
				return pbt.Failf("hang", "batch %d: waiter on %s does not return from Lock although its context is cancelled and the holder unlocked", b, w.key)
			}
			if r.err != nil {
				ctxErr++ // holds nothing
				continue
			}
			granted++
			if granted%s.LeaveEvery == 0 {
				leftToTTL++ // relies on the TTL: never unlocks
				continue
			}
			_ = l.Unlock(w.key, r.id) // an error means the TTL was faster
		}
	}
	what := fmt.Sprintf("%d one-shot keys: holder A, waiter B (ttl %v) cancelled within +/-50 us of A's Unlock; B obtained the lock %d times (%d of them left to the TTL, the others unlocked), got the context error %d times",
		attempt, ttl, granted, leftToTTL, ctxErr)
	if f := c28Quiesce(l, g0, s.Held, what); f != nil {
		return *f
	}
	for _, h := range hs {
		if err := l.Unlock(h.key, h.id); err != nil {
			return pbt.Failf("unlock-error", "Unlock(%s) of the steady set: %v", h.key, err)
		}
	}
	if f := c28Quiesce(l, g0, 0, what+", steady set unlocked"); f != nil {
		return *f
	}
	out := pbt.Outcome{NonTrivial: attempt >= 100 && leftToTTL > 0 && ctxErr > 0}
	if leftToTTL > 0 {
		out.Classes = append(out.Classes, "cancelled-waiter-obtained-lock-and-relied-on-ttl")
	}
	if ctxErr > 0 {
		out.Classes = append(out.Classes, "cancelled-waiter-got-context-error")
	}
	if granted > leftToTTL {
		out.Classes = append(out.Classes, "cancelled-waiter-obtained-lock-and-unlocked")
	}
	return out
}

func genC28Cancel(t *rapid.T) C28Cancel {
	return C28Cancel{
		Batches:    rapid.IntRange(3, 8).Draw(t, "batches"),
		BatchSize:  rapid.IntRange(16, 48).Draw(t, "batchsize"),
		TTLUs:      rapid.SampledFrom([]int{1000, 2000, 3000, 5000}).Draw(t, "ttl"),
		Off0Us:     rapid.IntRange(-50, 50).Draw(t, "off0"),
		StrideUs:   rapid.SampledFrom([]int{1, 3, 7, 13, 37}).Draw(t, "stride"),
		LeaveEvery: rapid.IntRange(1, 3).Draw(t, "leave"),
		Held:       rapid.IntRange(0, 3).Draw(t, "held"),
	}
}

func TestC28Cancel(t *testing.T) {
	pbt.Main(t, pbt.Spec[C28Cancel]{
		ID: "C28", Facet: "cancel",
		Rule: "fresh lock.New(); 3..8 batches of 16..48 one-shot keys: A holds (non-expiring), B queues with a cancellable context and TTL 1..5 ms (observed parked), then cancel(B) and Unlock(A) " +
			"are issued -50..+50 us apart (both orders, offsets sweep the range with a drawn stride); a B whose Lock returned nil relies on its TTL in every k-th case (k = 1..3) and unlocks otherwise, " +
			"a B with the context error is dropped; after all TTLs elapsed lock.queues must hold exactly the 0..3 keys still held (polled, 12 s grace); " +
			"non-trivial = >= 100 attempts with >= 1 lock obtained by a cancelled waiter and left to its TTL and >= 1 context error",
		Quick: 20, Thorough: 400,
		Gen: genC28Cancel, Run: runC28Cancel,
	})
}
