package lin

import (
	"runtime"
	"strings"
)

// goroutinesIn returns how many goroutines currently have a frame whose
// function name contains fn and are in the given wait state ("" = any),
// e.g. goroutinesIn("vigil.(*vigil).WaitForActiveVigilsClosed", "sync.Cond.Wait").
func goroutinesIn(fn, state string) int {
	buf := make([]byte, 1<<20)
	for {
		n := runtime.Stack(buf, true)
		if n < len(buf) {
			buf = buf[:n]
			break
		}
		buf = make([]byte, 2*len(buf))
	}
	c := 0
	for _, g := range strings.Split(string(buf), "\n\n") {
		if !strings.Contains(g, fn) {
			continue
		}
		hdr := g
		if i := strings.Index(g, "\n"); i >= 0 {
			hdr = g[:i]
		}
		if state == "" || strings.Contains(hdr, "["+state) {
			c++
		}
	}
	return c
}

// gInfo is one goroutine of a full stack dump.
type gInfo struct {
	ID    string
	State string
	Stack string
}

func allGoroutines() []gInfo {
	buf := make([]byte, 1<<20)
	for {
		n := runtime.Stack(buf, true)
		if n < len(buf) {
			buf = buf[:n]
			break
		}
		buf = make([]byte, 2*len(buf))
	}
	var out []gInfo
	for _, g := range strings.Split(string(buf), "\n\n") {
		hdr := g
		if i := strings.Index(g, "\n"); i >= 0 {
			hdr = g[:i]
		}
		if !strings.HasPrefix(hdr, "goroutine ") {
			continue
		}
		f := strings.Fields(hdr)
		gi := gInfo{Stack: g}
		if len(f) > 1 {
			gi.ID = f[1]
		}
		if i := strings.Index(hdr, "["); i >= 0 {
			st := hdr[i+1:]
			if j := strings.IndexAny(st, ",]"); j >= 0 {
				st = st[:j]
			}
			gi.State = st
		}
		out = append(out, gi)
	}
	return out
}

var blockedStates = []string{"sync.Cond.Wait", "sync.Mutex.Lock", "sync.RWMutex.RLock", "sync.RWMutex.Lock", "chan receive", "chan send", "select", "semacquire", "sync.WaitGroup.Wait"}

func isBlocked(state string) bool {
	for _, b := range blockedStates {
		if strings.HasPrefix(state, b) {
			return true
		}
	}
	return false
}

// stuckRequests looks at the goroutines that are inside a gateway handler. It
// returns a description and true when (a) there is at least one, (b) every one of
// them is parked in a blocking primitive, and (c) no goroutine with an engine
// frame is running / runnable / in a syscall — i.e. nothing in the engine is
// making progress that could release them.
func stuckRequests() (string, string, bool) {
	gs := allGoroutines()
	var sig []string
	what := ""
	for _, g := range gs {
		engine := strings.Contains(g.Stack, "github.com/hydraide/hydraide/app/")
		if !engine {
			continue
		}
		if !isBlocked(g.State) && g.State != "sleep" && g.State != "IO wait" {
			return "", "", false // something in the engine is running
		}
		if strings.Contains(g.Stack, "gateway.Gateway.") {
			if !isBlocked(g.State) {
				return "", "", false
			}
			// frames without the argument values (they may differ textually between dumps only by +0x offsets; keep all)
			sig = append(sig, g.ID+"|"+g.State+"|"+topFrames(g.Stack, 6))
			if what == "" {
				what = "parked in " + g.State + " at " + topFrames(g.Stack, 3)
			}
		}
	}
	if len(sig) == 0 {
		return "", "", false
	}
	return what, strings.Join(sig, "\n"), true
}

func topFrames(stack string, n int) string {
	var fr []string
	for _, ln := range strings.Split(stack, "\n")[1:] {
		if strings.HasPrefix(ln, "\t") || ln == "" {
			continue
		}
		if i := strings.Index(ln, "("); i > 0 {
			ln = ln[:i]
		}
		if j := strings.LastIndex(ln, "/"); j >= 0 {
			ln = ln[j+1:]
		}
		fr = append(fr, ln)
		if len(fr) == n {
			break
		}
	}
	return strings.Join(fr, " <- ")
}
