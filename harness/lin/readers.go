package lin

import (
	"context"
	"fmt"
	"io"
	"sync"
	"time"

	hydrapb "github.com/hydraide/hydraide/sdk/go/hydraidego/v3/hydraidepbgo"

	"verifharness/internal/rig"
)

// readerState collects what the bulk readers of a C10 program observed.
type readerState struct {
	env        *Env
	mu         sync.Mutex
	violations []string
	reads      int
}

func (rs *readerState) bad(format string, a ...any) {
	rs.mu.Lock()
	if len(rs.violations) < 8 {
		rs.violations = append(rs.violations, fmt.Sprintf(format, a...))
	}
	rs.mu.Unlock()
}

// checkTreasure is the versioned-read oracle: a record of a versioned key must
// carry a (value, UpdatedBy) pair that one single Set wrote. Every Set on such a
// key writes value n together with UpdatedBy "w<client>:<n>" (or "w<client>:s<n>"
// for the string form), and n is unique per Set.
func (rs *readerState) checkTreasure(via string, t *hydrapb.Treasure) {
	if t == nil || !t.IsExist {
		return
	}
	p := rs.env.P
	for i, k := range p.Keys {
		if !k.Ver || keyName(p, i) != t.Key {
			continue
		}
		rs.mu.Lock()
		rs.reads++
		rs.mu.Unlock()
		_, v := obsOf(t)
		uby := t.GetUpdatedBy()
		var want string
		switch v.T {
		case TI64, TU8, TBody:
			want = fmt.Sprintf(":%d", v.I)
		case TF64:
			want = fmt.Sprintf(":%d", int64(v.F*4))
		case TStr:
			want = ":" + v.S
		default:
			rs.bad("%s returned key %s with a value no Set ever wrote: %s (UpdatedBy %q)", via, t.Key, v, uby)
			return
		}
		ok := len(uby) > len(want) && uby[len(uby)-len(want):] == want && uby[0] == 'w'
		if !ok {
			rs.bad("%s returned key %s = %s with UpdatedBy %q: value and metadata belong to different Sets", via, t.Key, v, uby)
		}
		return
	}
}

var indexVariants = []struct {
	it hydrapb.IndexType_Type
	ot hydrapb.OrderType_Type
}{
	{hydrapb.IndexType_KEY, hydrapb.OrderType_ASC},
	{hydrapb.IndexType_KEY, hydrapb.OrderType_DESC},
	{hydrapb.IndexType_VALUE_INT64, hydrapb.OrderType_ASC},
	{hydrapb.IndexType_UPDATE_TIME, hydrapb.OrderType_DESC},
	{hydrapb.IndexType_CREATION_TIME, hydrapb.OrderType_ASC},
	{hydrapb.IndexType_VALUE_STRING, hydrapb.OrderType_ASC},
	{hydrapb.IndexType_VALUE_INT64, hydrapb.OrderType_DESC},
	{hydrapb.IndexType_EXPIRATION_TIME, hydrapb.OrderType_ASC},
}

// execReader runs the bulk readers (C10). Responses are not part of the
// linearizability model; the versioned-read oracle looks at every record.
func (e *Env) execReader(client int, op Op) Resp {
	ctx := context.Background()
	g := e.R.G
	sn := e.Swamp
	isl := rig.Island(sn)
	rs := e.rs
	switch op.K {
	case "getall":
		resp, err := g.GetAll(ctx, &hydrapb.GetAllRequest{IslandID: isl, SwampName: sn})
		if err != nil {
			return Resp{Err: errCode(err)}
		}
		if resp == nil {
			return Resp{Nil: true}
		}
		for _, t := range resp.Treasures {
			rs.checkTreasure("GetAll", t)
		}
		return Resp{Status: len(resp.Treasures)}
	case "bykeys":
		var keys []string
		for i := range e.P.Keys {
			keys = append(keys, keyName(e.P, i))
		}
		resp, err := g.GetByKeys(ctx, &hydrapb.GetByKeysRequest{IslandID: isl, SwampName: sn, Keys: keys})
		if err != nil {
			return Resp{Err: errCode(err)}
		}
		if resp == nil {
			return Resp{Nil: true}
		}
		for _, t := range resp.Treasures {
			rs.checkTreasure("GetByKeys", t)
		}
		return Resp{Status: len(resp.Treasures)}
	case "index":
		v := indexVariants[op.Mode%len(indexVariants)]
		resp, err := g.GetByIndex(ctx, &hydrapb.GetByIndexRequest{IslandID: isl, SwampName: sn, IndexType: v.it, OrderType: v.ot, From: 0, Limit: 0})
		if err != nil {
			return Resp{Err: errCode(err)}
		}
		if resp == nil {
			return Resp{Nil: true}
		}
		for _, t := range resp.Treasures {
			rs.checkTreasure("GetByIndex", t)
		}
		return Resp{Status: len(resp.Treasures)}
	case "stream":
		if e.Cli == nil {
			return Resp{Malf: "no grpc client"}
		}
		v := indexVariants[(op.Mode>>1)%len(indexVariants)]
		req := &hydrapb.GetByIndexStreamRequest{IslandID: isl, SwampName: sn, IndexType: v.it, OrderType: v.ot}
		if op.Mode&1 != 0 {
			// value filter on the typed int64 value, OR a body-field filter
			bp := "n"
			req.Filters = &hydrapb.FilterGroup{Logic: hydrapb.FilterLogic_OR, Filters: []*hydrapb.TreasureFilter{
				{Operator: hydrapb.Relational_GREATER_THAN_OR_EQUAL, CompareValue: &hydrapb.TreasureFilter_Int64Val{Int64Val: op.N}},
				{Operator: hydrapb.Relational_GREATER_THAN_OR_EQUAL, CompareValue: &hydrapb.TreasureFilter_Int64Val{Int64Val: op.N}, BytesFieldPath: &bp},
			}}
		}
		sctx, cancel := context.WithTimeout(ctx, 20*time.Second)
		defer cancel()
		st, err := e.Cli.GetByIndexStream(sctx, req)
		if err != nil {
			return Resp{Err: errCode(err)}
		}
		n := 0
		for {
			m, err := st.Recv()
			if err == io.EOF {
				break
			}
			if err != nil {
				return Resp{Err: errCode(err), Status: n}
			}
			n++
			rs.checkTreasure("GetByIndexStream", m.Treasure)
		}
		return Resp{Status: n}
	case "burst":
		// N distinct records written by ONE Set request (sustained inserts into the key map),
		// optionally removed again by one Delete request
		n := int(op.N)
		kvs := make([]*hydrapb.KeyValuePair, 0, n)
		keys := make([]string, 0, n)
		for j := 0; j < n; j++ {
			k := fmt.Sprintf("b%d_%d_%d", client, op.CV, j)
			v := int64(j)
			keys = append(keys, k)
			kvs = append(kvs, &hydrapb.KeyValuePair{Key: k, Int64Val: &v})
		}
		resp, err := g.Set(ctx, &hydrapb.SetRequest{Swamps: []*hydrapb.SwampRequest{{IslandID: isl, SwampName: sn, KeyValues: kvs, CreateIfNotExist: true, Overwrite: true}}})
		if err != nil {
			return Resp{Err: errCode(err)}
		}
		if resp == nil {
			return Resp{Nil: true}
		}
		if op.Mode&1 != 0 {
			dresp, err := g.Delete(ctx, &hydrapb.DeleteRequest{Swamps: []*hydrapb.DeleteRequest_SwampKeys{{IslandID: isl, SwampName: sn, Keys: keys}}})
			if err != nil {
				return Resp{Err: errCode(err)}
			}
			if dresp == nil {
				return Resp{Nil: true}
			}
		}
		return Resp{Status: n}
	case "xset", "xdel", "xshift", "xindex":
		return e.execChurn(client, op)
	case "count":
		resp, err := g.Count(ctx, &hydrapb.CountRequest{Swamps: []*hydrapb.CountRequest_SwampIdentifier{{IslandID: isl, SwampName: sn}}})
		if err != nil {
			return Resp{Err: errCode(err)}
		}
		if resp == nil {
			return Resp{Nil: true}
		}
		if len(resp.Swamps) != 1 {
			return Resp{Malf: fmt.Sprintf("count response: %v", resp)}
		}
		return Resp{Status: int(resp.Swamps[0].Count)}
	}
	return Resp{Malf: "unknown op " + op.K}
}
