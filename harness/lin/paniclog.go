package lin

import (
	"context"
	"log/slog"
	"strings"
	"sync"
)

// panicTap sits in front of the rig's slog handler and keeps the FULL text of
// every "panic" record (the rig's own capture truncates attributes), so that a
// recovered handler panic can be attributed to the code that raised it.
type panicTap struct{ next slog.Handler }

var (
	panicMu    sync.Mutex
	panicTexts []string
	sortAborts []string // "failed to sort …" error records (a value / time re-sort gave up)
)

func (h panicTap) Enabled(ctx context.Context, l slog.Level) bool { return h.next.Enabled(ctx, l) }
func (h panicTap) Handle(ctx context.Context, r slog.Record) error {
	if strings.Contains(strings.ToLower(r.Message), "panic") {
		var sb strings.Builder
		sb.WriteString(r.Message)
		r.Attrs(func(a slog.Attr) bool {
			v := a.Value.String()
			if len(v) > 6000 {
				v = v[:6000] + "…"
			}
			sb.WriteString(" " + a.Key + "=" + v)
			return true
		})
		panicMu.Lock()
		if len(panicTexts) < 64 {
			panicTexts = append(panicTexts, sb.String())
		}
		panicMu.Unlock()
	}
	if strings.HasPrefix(r.Message, "failed to sort") {
		msg := r.Message
		r.Attrs(func(a slog.Attr) bool {
			msg += " " + a.Key + "=" + a.Value.String()
			return true
		})
		panicMu.Lock()
		if len(sortAborts) < 100000 {
			sortAborts = append(sortAborts, msg)
		}
		panicMu.Unlock()
	}
	return h.next.Handle(ctx, r)
}
func (h panicTap) WithAttrs(a []slog.Attr) slog.Handler { return panicTap{h.next.WithAttrs(a)} }
func (h panicTap) WithGroup(g string) slog.Handler      { return panicTap{h.next.WithGroup(g)} }

// installPanicTap must be called right after rig.New (which installs its capture handler).
func installPanicTap() {
	slog.SetDefault(slog.New(panicTap{slog.Default().Handler()}))
}

func takePanicTexts() []string {
	panicMu.Lock()
	defer panicMu.Unlock()
	out := panicTexts
	panicTexts = nil
	return out
}

func takeSortAborts() []string {
	panicMu.Lock()
	defer panicMu.Unlock()
	out := sortAborts
	sortAborts = nil
	return out
}

// panicOrigin returns the first engine frame below the runtime's panic frames
// of a recovered-panic stack, e.g. "treasure.(*treasure).GetContentByteArray".
func panicOrigin(text string) string {
	i := strings.Index(text, "panic(")
	if i < 0 {
		return ""
	}
	for _, ln := range strings.Split(text[i:], "\n")[1:] {
		ln = strings.TrimSpace(ln)
		if ln == "" || strings.HasPrefix(ln, "/") || strings.HasPrefix(ln, "runtime.") || strings.HasPrefix(ln, "runtime/") || strings.HasPrefix(ln, "panic(") {
			continue
		}
		if j := strings.LastIndex(ln, "("); j > 0 {
			ln = ln[:j]
		}
		return shortFn(ln)
	}
	return ""
}
