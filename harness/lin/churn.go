package lin

import (
	"context"
	"fmt"
	"sort"

	hydrapb "github.com/hydraide/hydraide/sdk/go/hydraidego/v3/hydraidepbgo"

	"verifharness/internal/rig"
)

// Index-churn facet of C10: an already built VALUE_INT64 index (asc + desc) is
// re-sorted by value-changing Sets while other clients Delete / ShiftByKeys /
// insert OTHER records and readers page the index. No key is ever touched by
// two clients, so nothing but the shared index structures is contended, and
// the final state of every record is known exactly.

const churnAnchor = "x-anchor"

func churnKey(i int64) string { return fmt.Sprintf("x%04d", i) }
func churnInit(i int64) int64 { return i * 7 % 1000 }
func (e *Env) isl() uint64    { return rig.Island(e.Swamp) }
func i64kv(k string, v int64) *hydrapb.KeyValuePair {
	return &hydrapb.KeyValuePair{Key: k, Int64Val: &v}
}

func (e *Env) churnSetup() {
	ctx := context.Background()
	g := e.R.G
	kvs := []*hydrapb.KeyValuePair{i64kv(churnAnchor, -1)}
	for i := 0; i < e.P.Churn; i++ {
		kvs = append(kvs, i64kv(churnKey(int64(i)), churnInit(int64(i))))
	}
	_, _ = g.Set(ctx, &hydrapb.SetRequest{Swamps: []*hydrapb.SwampRequest{{IslandID: e.isl(), SwampName: e.Swamp, KeyValues: kvs, CreateIfNotExist: true, Overwrite: true}}})
	for _, v := range []struct {
		it hydrapb.IndexType_Type
		ot hydrapb.OrderType_Type
	}{{hydrapb.IndexType_VALUE_INT64, hydrapb.OrderType_ASC}, {hydrapb.IndexType_VALUE_INT64, hydrapb.OrderType_DESC}, {hydrapb.IndexType_KEY, hydrapb.OrderType_ASC}} {
		_, _ = g.GetByIndex(ctx, &hydrapb.GetByIndexRequest{IslandID: e.isl(), SwampName: e.Swamp, IndexType: v.it, OrderType: v.ot})
	}
}

func (e *Env) execChurn(client int, op Op) Resp {
	ctx := context.Background()
	g := e.R.G
	key := churnKey(op.N)
	switch op.K {
	case "xset":
		resp, err := g.Set(ctx, &hydrapb.SetRequest{Swamps: []*hydrapb.SwampRequest{{IslandID: e.isl(), SwampName: e.Swamp, KeyValues: []*hydrapb.KeyValuePair{i64kv(key, op.CV)}, CreateIfNotExist: true, Overwrite: true}}})
		if err != nil {
			return Resp{Err: errCode(err)}
		}
		if resp == nil {
			return Resp{Nil: true}
		}
		return Resp{Status: 1}
	case "xdel":
		resp, err := g.Delete(ctx, &hydrapb.DeleteRequest{Swamps: []*hydrapb.DeleteRequest_SwampKeys{{IslandID: e.isl(), SwampName: e.Swamp, Keys: []string{key}}}})
		if err != nil {
			return Resp{Err: errCode(err)}
		}
		if resp == nil {
			return Resp{Nil: true}
		}
		return Resp{Status: 1}
	case "xshift":
		resp, err := g.ShiftByKeys(ctx, &hydrapb.ShiftByKeysRequest{IslandID: e.isl(), SwampName: e.Swamp, Keys: []string{key}})
		if err != nil {
			return Resp{Err: errCode(err)}
		}
		if resp == nil {
			return Resp{Nil: true}
		}
		return Resp{Status: 1}
	case "xindex":
		ot := hydrapb.OrderType_ASC
		if op.Mode&1 != 0 {
			ot = hydrapb.OrderType_DESC
		}
		resp, err := g.GetByIndex(ctx, &hydrapb.GetByIndexRequest{IslandID: e.isl(), SwampName: e.Swamp, IndexType: hydrapb.IndexType_VALUE_INT64, OrderType: ot, From: int32(op.CV), Limit: int32(op.N)})
		if err != nil {
			return Resp{Err: errCode(err)}
		}
		if resp == nil {
			return Resp{Nil: true}
		}
		return Resp{Status: len(resp.Treasures)}
	}
	return Resp{Malf: "unknown churn op " + op.K}
}

// churnCheck runs after every client returned. It replays each record's own
// (sequential) op list to get the set of records that must exist with their
// values and compares it with GetAll and with the full VALUE_INT64 listings.
func (e *Env) churnCheck(evs []Event) ([]string, int) {
	want := map[string]int64{churnAnchor: -1}
	for i := 0; i < e.P.Churn; i++ {
		want[churnKey(int64(i))] = churnInit(int64(i))
	}
	// per client in program order (events of one client are sequential)
	byClient := map[int][]Event{}
	for _, ev := range evs {
		if ev.Client < clientSetup {
			byClient[ev.Client] = append(byClient[ev.Client], ev)
		}
	}
	uncertain := map[string]bool{}
	for _, l := range byClient {
		sort.Slice(l, func(i, j int) bool { return l[i].Idx < l[j].Idx })
		for _, ev := range l {
			k := churnKey(ev.Op.N)
			switch ev.Op.K {
			case "xset", "xdel", "xshift":
				if !ev.Done || ev.Resp.Nil || ev.Resp.Err != "" {
					uncertain[k] = true // judged as a panic / error elsewhere
					continue
				}
				if ev.Op.K == "xset" {
					want[k] = ev.Op.CV
				} else {
					delete(want, k)
				}
			}
		}
	}
	var bad []string
	add := func(format string, a ...any) {
		if len(bad) < 6 {
			bad = append(bad, fmt.Sprintf(format, a...))
		}
	}
	ctx := context.Background()
	g := e.R.G
	checked := 0
	listing := func(name string, ts []*hydrapb.Treasure, order int) {
		checked++
		seen := map[string]bool{}
		var prev int64
		for i, t := range ts {
			if seen[t.Key] {
				add("%s lists %s twice", name, t.Key)
			}
			seen[t.Key] = true
			if uncertain[t.Key] {
				continue
			}
			w, ok := want[t.Key]
			if !ok {
				add("%s lists %s although its Delete/ShiftByKeys was acknowledged and nobody re-created it", name, t.Key)
				continue
			}
			if t.Int64Val == nil || *t.Int64Val != w {
				add("%s returns %s = %v, its owner last wrote %d", name, t.Key, t.Int64Val, w)
				continue
			}
			if order != 0 && i > 0 && ((order > 0 && *t.Int64Val < prev) || (order < 0 && *t.Int64Val > prev)) {
				add("%s is not sorted at position %d: %d after %d", name, i, *t.Int64Val, prev)
			}
			prev = *t.Int64Val
		}
		for k := range want {
			if !seen[k] && !uncertain[k] {
				add("%s misses %s although the record exists (last acknowledged write %d)", name, k, want[k])
			}
		}
	}
	if resp, err := g.GetAll(ctx, &hydrapb.GetAllRequest{IslandID: e.isl(), SwampName: e.Swamp}); err == nil && resp != nil {
		listing("GetAll", resp.Treasures, 0)
	} else {
		add("quiescent GetAll failed: %v", err)
	}
	for _, v := range []struct {
		name  string
		ot    hydrapb.OrderType_Type
		order int
	}{{"GetByIndex VALUE_INT64 ASC", hydrapb.OrderType_ASC, 1}, {"GetByIndex VALUE_INT64 DESC", hydrapb.OrderType_DESC, -1}} {
		resp, err := g.GetByIndex(ctx, &hydrapb.GetByIndexRequest{IslandID: e.isl(), SwampName: e.Swamp, IndexType: hydrapb.IndexType_VALUE_INT64, OrderType: v.ot})
		if err != nil || resp == nil {
			add("quiescent %s failed: %v", v.name, err)
			continue
		}
		listing(v.name, resp.Treasures, v.order)
	}
	sort.Strings(bad)
	return bad, checked
}
