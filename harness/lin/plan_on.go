//go:build verifvsched

package lin

import "github.com/hydraide/hydraide/app/verifshim/vsched"

// VschedBuilt reports whether the engine was built with the perturbation overlay.
const VschedBuilt = true

type planReport struct {
	Fired []string
	Hits  map[string]int
}

func activatePlan(pl []PlanAction) {
	acts := make([]vsched.Action, 0, len(pl))
	for _, a := range pl {
		acts = append(acts, vsched.Action{Site: a.Site, Hit: a.Hit, Kind: a.Kind, SleepUs: a.SleepUs, Until: a.Until, MaxWaitMs: a.MaxWaitMs})
	}
	vsched.Activate(acts, false)
}

func deactivatePlan() planReport {
	r := vsched.Deactivate()
	return planReport{Fired: r.Fired, Hits: r.Hits}
}
