//go:build !verifvsched

package lin

// VschedBuilt reports whether the engine was built with the perturbation overlay.
const VschedBuilt = false

type planReport struct {
	Fired []string
	Hits  map[string]int
}

func activatePlan(pl []PlanAction) {}

func deactivatePlan() planReport { return planReport{} }
