// Package lin holds the concurrency checks C09 (linearizability of concurrent
// writes on a key) and C10 (no crash / data race / torn read under mixed
// concurrent load). Both run generated client PROGRAMS against the in-process
// server rig through the exported gateway handlers.
package lin

import (
	"context"
	"encoding/binary"
	"fmt"
	"math"
	"sort"
	"strings"
	"sync"
	"time"

	hydrapb "github.com/hydraide/hydraide/sdk/go/hydraidego/v3/hydraidepbgo"
	"google.golang.org/grpc/codes"
	"google.golang.org/grpc/status"

	"verifharness/internal/rig"
)

// ---------------------------------------------------------------------------
// scenario vocabulary

// Key kinds. Every key has ONE numeric family for its read-modify-write ops
// (cross-family increments on one key are single-client API semantics, C06's
// business); Set may additionally store a string on any key, which makes
// increments / patches answer with a type error until the next typed Set.
const (
	KindI64  = 0
	KindU8   = 1
	KindF64  = 2
	KindBody = 3 // msgpack map {"n": int64} behind the C7 00 magic prefix, target of PatchTreasures
)

var kindNames = []string{"i64", "u8", "f64", "body"}

// configurations
const (
	CfgMem       = 0 // in-memory swamp
	CfgInterval  = 1 // persistent, write interval 1 s
	CfgImmediate = 2 // persistent, write interval 0 = immediate-write mode
)

var cfgNames = []string{"in-memory", "persistent-1s", "immediate-write"}

type KeySpec struct {
	Kind  int   `json:"kind"`
	Owner int   `json:"owner"`          // -1 = shared by all clients, else the only client that touches it
	Init  bool  `json:"init,omitempty"` // key holds InitN before the clients start
	InitN int64 `json:"init_n,omitempty"`
	// Ver (C10): versioned key — only Set/Delete/Shift write it and every Set stores
	// UpdatedBy = "w<client>:<value>" together with the value.
	Ver bool `json:"ver,omitempty"`
}

// Op is one client request. K:
//
//	set   Mode 0 upsert / 1 insert-only / 2 update-only / 3 upsert of a string; N = value
//	inc   Increment<kind of key>(N) with optional condition (Cond 1..6 = EQ NE GT GE LT LE, CV reference)
//	patch PatchTreasures on field "n": Mode bit0 = CreateIfNotExist, bit1 = SET instead of INC; N = delta / value; condition on "n"
//	del   Delete; shift ShiftByKeys; get Get
//	readers (C10): getall, bykeys, index (Mode = index/order variant), stream (Mode bit0 = with filter), count
type Op struct {
	K    string `json:"k"`
	Key  int    `json:"key"`
	N    int64  `json:"n,omitempty"`
	Mode int    `json:"mode,omitempty"`
	Cond int    `json:"cond,omitempty"`
	CV   int64  `json:"cv,omitempty"`
}

type PlanAction struct {
	Site      string `json:"site"`
	Hit       int    `json:"hit"`
	Kind      string `json:"kind"`
	SleepUs   int    `json:"sleep_us,omitempty"`
	Until     string `json:"until,omitempty"`
	MaxWaitMs int    `json:"max_wait_ms,omitempty"`
}

type Program struct {
	// Churn > 0 (C10 index-churn facet): the swamp holds ONLY int64 records — an int64 anchor
	// and Churn records "x<i>" = i*7%1000 written by one Set before the clients start — and the
	// VALUE_INT64 (asc + desc) and KEY indexes are built before the clients start. Record x<i>
	// is touched by client i % len(Clients) only (ops xset / xdel / xshift).
	Churn int `json:"churn,omitempty"`
	// NoAnchor (C10 from-empty facet): nothing is written before the clients start — the swamp
	// does not exist yet, and it auto-destroys whenever its last record is deleted.
	NoAnchor bool         `json:"no_anchor,omitempty"`
	Config   int          `json:"config"`
	Keys     []KeySpec    `json:"keys"`
	Clients  [][]Op       `json:"clients"`
	Plan     []PlanAction `json:"plan,omitempty"`
}

func isWrite(k string) bool {
	switch k {
	case "set", "inc", "patch", "del", "shift", "burst", "xset", "xdel", "xshift":
		return true
	}
	return false
}
func isRMW(k string) bool { return k == "inc" || k == "patch" || k == "shift" }

// ---------------------------------------------------------------------------
// observed values

// value types of an observation / model state
const (
	TNone  = 0
	TI64   = 1
	TU8    = 2
	TF64   = 3
	TBody  = 4
	TStr   = 5
	TOther = 6 // anything the programs never write (void, foreign bytes, …)
)

// Val is a comparable value (usable as porcupine state).
type Val struct {
	T int
	I int64
	F float64
	S string
}

func (v Val) String() string {
	switch v.T {
	case TNone:
		return "-"
	case TI64:
		return fmt.Sprintf("i64:%d", v.I)
	case TU8:
		return fmt.Sprintf("u8:%d", v.I)
	case TF64:
		return fmt.Sprintf("f64:%g", v.F)
	case TBody:
		return fmt.Sprintf("body{n:%d}", v.I)
	case TStr:
		return fmt.Sprintf("str:%q", v.S)
	}
	return "other:" + v.S
}

func kindT(kind int) int { return kind + 1 } // KindI64->TI64 …

func valOfKind(kind int, n int64) Val {
	switch kind {
	case KindI64:
		return Val{T: TI64, I: n}
	case KindU8:
		return Val{T: TU8, I: int64(uint8(n))}
	case KindF64:
		return Val{T: TF64, F: float64(n) * 0.25}
	default:
		return Val{T: TBody, I: n}
	}
}

func mpI64(n int64) []byte {
	b := make([]byte, 9)
	b[0] = 0xd3
	binary.BigEndian.PutUint64(b[1:], uint64(n))
	return b
}

// bodyBytes encodes {"n": int64 n} with the msgpack magic prefix.
func bodyBytes(n int64) []byte {
	return append([]byte{0xC7, 0x00, 0x81, 0xa1, 'n'}, mpI64(n)...)
}

func parseBody(b []byte) (int64, bool) {
	if len(b) != 14 || b[0] != 0xC7 || b[1] != 0 || b[2] != 0x81 || b[3] != 0xa1 || b[4] != 'n' || b[5] != 0xd3 {
		return 0, false
	}
	return int64(binary.BigEndian.Uint64(b[6:])), true
}

func obsOf(t *hydrapb.Treasure) (bool, Val) {
	if t == nil || !t.IsExist {
		return false, Val{}
	}
	switch {
	case t.Int64Val != nil:
		return true, Val{T: TI64, I: *t.Int64Val}
	case t.Uint8Val != nil:
		return true, Val{T: TU8, I: int64(*t.Uint8Val)}
	case t.Float64Val != nil:
		return true, Val{T: TF64, F: *t.Float64Val}
	case t.StringVal != nil:
		return true, Val{T: TStr, S: *t.StringVal}
	case t.BytesVal != nil:
		if n, ok := parseBody(t.BytesVal); ok {
			return true, Val{T: TBody, I: n}
		}
		return true, Val{T: TOther, S: fmt.Sprintf("bytes:%x", t.BytesVal)}
	}
	return true, Val{T: TOther, S: "void-or-foreign-type"}
}

// ---------------------------------------------------------------------------
// responses and history

type Resp struct {
	Nil    bool   `json:"nil,omitempty"`    // handler returned (nil, nil): a recovered panic
	Err    string `json:"err,omitempty"`    // grpc code name of an error return
	Status int    `json:"status,omitempty"` // Status_Code / PatchResult_StatusCode
	Exists bool   `json:"exists,omitempty"` // get / shift: record present
	Val    Val    `json:"val"`              // get / shift: the value; inc: the returned value
	Inc    bool   `json:"inc,omitempty"`    // inc: IsIncremented
	UBy    string `json:"uby,omitempty"`    // get: UpdatedBy
	Malf   string `json:"malf,omitempty"`   // response shape the API cannot legally produce
}

type Event struct {
	Client int
	Idx    int
	Op     Op
	Call   int64
	Ret    int64
	Resp   Resp
	Done   bool
}

func errCode(err error) string {
	if err == nil {
		return ""
	}
	if st, ok := status.FromError(err); ok {
		return st.Code().String()
	}
	return "non-grpc:" + err.Error()
}

// ---------------------------------------------------------------------------
// executor

type Env struct {
	R     *rig.Rig
	Swamp string
	P     *Program
	Cli   hydrapb.HydraideServiceClient // optional (streams)
	base  time.Time
	rs    *readerState
}

func (e *Env) now() int64 { return int64(time.Since(e.base)) }

func keyName(p *Program, i int) string {
	k := p.Keys[i]
	if k.Owner < 0 {
		return fmt.Sprintf("k%d", i)
	}
	return fmt.Sprintf("p%d_%d", k.Owner, i)
}

func condOp(c int) hydrapb.Relational_Operator {
	switch c {
	case 1:
		return hydrapb.Relational_EQUAL
	case 2:
		return hydrapb.Relational_NOT_EQUAL
	case 3:
		return hydrapb.Relational_GREATER_THAN
	case 4:
		return hydrapb.Relational_GREATER_THAN_OR_EQUAL
	case 5:
		return hydrapb.Relational_LESS_THAN
	default:
		return hydrapb.Relational_LESS_THAN_OR_EQUAL
	}
}

func patchCondOp(c int) hydrapb.PatchCondition_Op {
	switch c {
	case 1:
		return hydrapb.PatchCondition_EQUAL
	case 2:
		return hydrapb.PatchCondition_NOT_EQUAL
	case 3:
		return hydrapb.PatchCondition_GREATER_THAN
	case 4:
		return hydrapb.PatchCondition_GREATER_THAN_OR_EQUAL
	case 5:
		return hydrapb.PatchCondition_LESS_THAN
	default:
		return hydrapb.PatchCondition_LESS_THAN_OR_EQUAL
	}
}

func (e *Env) kvOf(kind int, key string, n int64, asString bool, client int, ver bool) *hydrapb.KeyValuePair {
	kv := &hydrapb.KeyValuePair{Key: key}
	if asString {
		s := fmt.Sprintf("s%d", n)
		kv.StringVal = &s
	} else {
		switch kind {
		case KindI64:
			v := n
			kv.Int64Val = &v
		case KindU8:
			v := uint32(uint8(n))
			kv.Uint8Val = &v
		case KindF64:
			v := float64(n) * 0.25
			kv.Float64Val = &v
		default:
			kv.BytesVal = bodyBytes(n)
		}
	}
	if ver {
		u := fmt.Sprintf("w%d:%d", client, n)
		if asString {
			u = fmt.Sprintf("w%d:s%d", client, n)
		}
		kv.UpdatedBy = &u
	}
	return kv
}

// Exec performs one op and classifies the response.
func (e *Env) Exec(client int, op Op) Resp {
	ctx := context.Background()
	g := e.R.G
	sn := e.Swamp
	isl := rig.Island(sn)
	var key string
	kind, ver := 0, false
	if op.Key >= 0 && op.Key < len(e.P.Keys) {
		key = keyName(e.P, op.Key)
		kind = e.P.Keys[op.Key].Kind
		ver = e.P.Keys[op.Key].Ver
	}
	switch op.K {
	case "set":
		req := &hydrapb.SetRequest{Swamps: []*hydrapb.SwampRequest{{
			IslandID: isl, SwampName: sn,
			KeyValues:        []*hydrapb.KeyValuePair{e.kvOf(kind, key, op.N, op.Mode == 3, client, ver)},
			CreateIfNotExist: op.Mode != 2, Overwrite: op.Mode != 1,
		}}}
		resp, err := g.Set(ctx, req)
		if err != nil {
			return Resp{Err: errCode(err)}
		}
		if resp == nil {
			return Resp{Nil: true}
		}
		if len(resp.Swamps) != 1 || resp.Swamps[0].ErrorCode != nil || len(resp.Swamps[0].KeysAndStatuses) != 1 {
			return Resp{Malf: fmt.Sprintf("set response: %v", resp)}
		}
		return Resp{Status: int(resp.Swamps[0].KeysAndStatuses[0].Status)}
	case "inc":
		switch kind {
		case KindI64:
			req := &hydrapb.IncrementInt64Request{IslandID: isl, SwampName: sn, Key: key, IncrementBy: op.N}
			if op.Cond != 0 {
				req.Condition = &hydrapb.IncrementInt64Condition{RelationalOperator: condOp(op.Cond), Value: op.CV}
			}
			resp, err := g.IncrementInt64(ctx, req)
			if err != nil {
				return Resp{Err: errCode(err)}
			}
			if resp == nil {
				return Resp{Nil: true}
			}
			return Resp{Val: Val{T: TI64, I: resp.Value}, Inc: resp.IsIncremented}
		case KindU8:
			req := &hydrapb.IncrementUint8Request{IslandID: isl, SwampName: sn, Key: key, IncrementBy: uint32(uint8(op.N))}
			if op.Cond != 0 {
				req.Condition = &hydrapb.IncrementUint8Condition{RelationalOperator: condOp(op.Cond), Value: uint32(uint8(op.CV))}
			}
			resp, err := g.IncrementUint8(ctx, req)
			if err != nil {
				return Resp{Err: errCode(err)}
			}
			if resp == nil {
				return Resp{Nil: true}
			}
			return Resp{Val: Val{T: TU8, I: int64(resp.Value)}, Inc: resp.IsIncremented}
		case KindF64:
			req := &hydrapb.IncrementFloat64Request{IslandID: isl, SwampName: sn, Key: key, IncrementBy: float64(op.N) * 0.25}
			if op.Cond != 0 {
				req.Condition = &hydrapb.IncrementFloat64Condition{RelationalOperator: condOp(op.Cond), Value: float64(op.CV) * 0.25}
			}
			resp, err := g.IncrementFloat64(ctx, req)
			if err != nil {
				return Resp{Err: errCode(err)}
			}
			if resp == nil {
				return Resp{Nil: true}
			}
			return Resp{Val: Val{T: TF64, F: resp.Value}, Inc: resp.IsIncremented}
		}
		return Resp{Malf: "inc on a body key (generator error)"}
	case "patch":
		po := &hydrapb.PatchOp{Op: hydrapb.PatchOp_INC, Path: "n", Value: mpI64(op.N)}
		if op.Mode&2 != 0 {
			po.Op = hydrapb.PatchOp_SET
		}
		tp := &hydrapb.TreasurePatch{Key: key, Ops: []*hydrapb.PatchOp{po}}
		if op.Cond != 0 {
			tp.Condition = &hydrapb.PatchCondition{Path: "n", Operator: patchCondOp(op.Cond), Threshold: mpI64(op.CV)}
		}
		req := &hydrapb.PatchTreasuresRequest{IslandID: isl, SwampName: sn, CreateIfNotExist: op.Mode&1 != 0, Patches: []*hydrapb.TreasurePatch{tp}}
		resp, err := g.PatchTreasures(ctx, req)
		if err != nil {
			return Resp{Err: errCode(err)}
		}
		if resp == nil {
			return Resp{Nil: true}
		}
		if len(resp.Results) != 1 {
			return Resp{Malf: fmt.Sprintf("patch response: %v", resp)}
		}
		return Resp{Status: int(resp.Results[0].Status)}
	case "del":
		resp, err := g.Delete(ctx, &hydrapb.DeleteRequest{Swamps: []*hydrapb.DeleteRequest_SwampKeys{{IslandID: isl, SwampName: sn, Keys: []string{key}}}})
		if err != nil {
			return Resp{Err: errCode(err)}
		}
		if resp == nil {
			return Resp{Nil: true}
		}
		if len(resp.Responses) != 1 || resp.Responses[0].ErrorCode != nil || len(resp.Responses[0].KeyStatuses) != 1 {
			return Resp{Malf: fmt.Sprintf("delete response: %v", resp)}
		}
		return Resp{Status: int(resp.Responses[0].KeyStatuses[0].Status)}
	case "shift":
		resp, err := g.ShiftByKeys(ctx, &hydrapb.ShiftByKeysRequest{IslandID: isl, SwampName: sn, Keys: []string{key}})
		if err != nil {
			return Resp{Err: errCode(err)}
		}
		if resp == nil {
			return Resp{Nil: true}
		}
		if len(resp.Treasures) > 1 || (len(resp.Treasures) == 1 && resp.Treasures[0].Key != key) {
			return Resp{Malf: fmt.Sprintf("shift response: %v", resp)}
		}
		if len(resp.Treasures) == 0 {
			return Resp{}
		}
		ex, v := obsOf(resp.Treasures[0])
		return Resp{Exists: ex, Val: v, UBy: resp.Treasures[0].GetUpdatedBy()}
	case "get":
		resp, err := g.Get(ctx, &hydrapb.GetRequest{Swamps: []*hydrapb.GetSwamp{{IslandID: isl, SwampName: sn, Keys: []string{key}}}})
		if err != nil {
			return Resp{Err: errCode(err)}
		}
		if resp == nil {
			return Resp{Nil: true}
		}
		if len(resp.Swamps) != 1 || len(resp.Swamps[0].Treasures) != 1 || resp.Swamps[0].Treasures[0].Key != key {
			return Resp{Malf: fmt.Sprintf("get response: %v", resp)}
		}
		t := resp.Swamps[0].Treasures[0]
		if e.rs != nil {
			e.rs.checkTreasure("Get", t)
		}
		ex, v := obsOf(t)
		return Resp{Exists: ex, Val: v, UBy: t.GetUpdatedBy()}
	}
	return e.execReader(client, op)
}

// ---------------------------------------------------------------------------
// running a program

type RunResult struct {
	Events     []Event  // completed and (when Hung) uncompleted events of all clients, setup and final reads included
	Hung       []int    // clients that did not return within the watchdog
	PanicsBy   int      // number of "panic" log records produced while the program ran
	PanicTexts []string // their full text (message, error, stack)
	SortAborts []string // "failed to sort …" error records logged while the program ran
	Recent     []string
	Fired      []string
	Hits       map[string]int
	// torn / foreign reads seen by the C10 readers
	ReadViolations []string
	Reads          int
	// index-churn facet: differences between the quiescent index listings and the records that
	// must exist (each record has one owner client, so its final state is known exactly)
	IndexViolations []string
	IndexChecked    int
}

const (
	clientSetup = 1000
	clientFinal = 1001
)

// RunProgram executes p on a fresh swamp of rig r. watchdog bounds the wait for
// the clients. The caller judges the result.
func RunProgram(r *rig.Rig, cli hydrapb.HydraideServiceClient, swamp string, p *Program, watchdog time.Duration) *RunResult {
	e := &Env{R: r, Swamp: swamp, P: p, Cli: cli, base: time.Now()}
	rs := &readerState{env: e}
	e.rs = rs
	res := &RunResult{}
	panics0 := r.Logs.Panics()
	r.Logs.Reset()
	takePanicTexts()
	takeSortAborts()

	var mu sync.Mutex
	var events []Event // clients that outlive the watchdog keep appending here, never to res
	record := func(ev Event) {
		mu.Lock()
		events = append(events, ev)
		mu.Unlock()
	}
	snapshot := func() {
		mu.Lock()
		res.Events = append([]Event(nil), events...)
		mu.Unlock()
	}
	run := func(client, idx int, op Op) Resp {
		call := e.now()
		rp := e.Exec(client, op)
		ret := e.now()
		record(Event{Client: client, Idx: idx, Op: op, Call: call, Ret: ret, Resp: rp, Done: true})
		return rp
	}

	// setup (sequential, part of the history): an anchor record keeps the swamp
	// non-empty for the whole program — deleting the LAST record of a swamp
	// destroys the swamp, which is C16's subject, not this one's.
	if p.Churn > 0 {
		e.churnSetup()
	} else if !p.NoAnchor {
		s := "anchor"
		g := r.G
		_, _ = g.Set(context.Background(), &hydrapb.SetRequest{Swamps: []*hydrapb.SwampRequest{{
			IslandID: rig.Island(swamp), SwampName: swamp, CreateIfNotExist: true, Overwrite: true,
			KeyValues: []*hydrapb.KeyValuePair{{Key: "zz-anchor", StringVal: &s}},
		}}})
	}
	for i, k := range p.Keys {
		if k.Init {
			run(clientSetup, i, Op{K: "set", Key: i, N: k.InitN})
		}
	}

	activatePlan(p.Plan)
	planActive := true
	defer func() {
		if planActive {
			deactivatePlan()
		}
	}()

	start := make(chan struct{})
	done := make([]chan struct{}, len(p.Clients))
	inflight := make([]*Event, len(p.Clients))
	var imu sync.Mutex
	for c := range p.Clients {
		done[c] = make(chan struct{})
		go func(c int) {
			defer close(done[c])
			<-start
			for i, op := range p.Clients[c] {
				ev := &Event{Client: c, Idx: i, Op: op, Call: e.now()}
				imu.Lock()
				inflight[c] = ev
				imu.Unlock()
				ev.Resp = e.Exec(c, op)
				ev.Ret = e.now()
				ev.Done = true
				imu.Lock()
				inflight[c] = nil
				imu.Unlock()
				record(*ev)
			}
		}(c)
	}
	close(start)
	deadline := time.After(watchdog)
	for c := range done {
		select {
		case <-done[c]:
		case <-deadline:
			res.Hung = append(res.Hung, c)
			// keep draining the others without waiting again
			deadline = time.After(time.Millisecond)
		}
	}
	rep := deactivatePlan()
	planActive = false
	res.Fired, res.Hits = rep.Fired, rep.Hits
	if len(res.Hung) > 0 {
		snapshot()
		imu.Lock()
		for _, c := range res.Hung {
			if in := inflight[c]; in != nil {
				// Client, Idx, Op, Call were written before the pointer was published
				res.Events = append(res.Events, Event{Client: in.Client, Idx: in.Idx, Op: in.Op, Call: in.Call, Ret: math.MaxInt64})
			}
		}
		imu.Unlock()
		res.PanicsBy = r.Logs.Panics() - panics0
		res.Recent = r.Logs.Recent(60)
		res.PanicTexts = takePanicTexts()
		return res
	}
	// final reads
	for i := range p.Keys {
		run(clientFinal, i, Op{K: "get", Key: i})
	}
	snapshot()
	if p.Churn > 0 {
		res.IndexViolations, res.IndexChecked = e.churnCheck(res.Events)
	}
	res.PanicsBy = r.Logs.Panics() - panics0
	res.Recent = r.Logs.Recent(60)
	res.PanicTexts = takePanicTexts()
	res.SortAborts = takeSortAborts()
	rs.mu.Lock()
	res.ReadViolations, res.Reads = rs.violations, rs.reads
	rs.mu.Unlock()
	return res
}

// DestroySwamp removes the swamp of a finished case (bounded memory / disk).
func DestroySwamp(r *rig.Rig, swamp string) {
	ctx, cancel := context.WithTimeout(context.Background(), 20*time.Second)
	defer cancel()
	done := make(chan struct{})
	go func() {
		defer close(done)
		_, _ = r.G.Destroy(ctx, &hydrapb.DestroyRequest{IslandID: rig.Island(swamp), SwampName: swamp})
	}()
	select {
	case <-done:
	case <-ctx.Done():
	}
}

// overlapStats implements the non-triviality rule: ≥ 2 clients have
// time-overlapping ops on the same key and ≥ 1 of them is a read-modify-write.
func overlapStats(evs []Event) (rmwOverlap bool, writeOverlap bool, pairs int) {
	byKey := map[int][]Event{}
	for _, ev := range evs {
		if ev.Client >= clientSetup || ev.Op.Key < 0 {
			continue
		}
		byKey[ev.Op.Key] = append(byKey[ev.Op.Key], ev)
	}
	for _, l := range byKey {
		for i := 0; i < len(l); i++ {
			for j := i + 1; j < len(l); j++ {
				a, b := l[i], l[j]
				if a.Client == b.Client {
					continue
				}
				if a.Call <= b.Ret && b.Call <= a.Ret {
					if isWrite(a.Op.K) || isWrite(b.Op.K) {
						pairs++
						if isWrite(a.Op.K) && isWrite(b.Op.K) {
							writeOverlap = true
							if isRMW(a.Op.K) || isRMW(b.Op.K) {
								rmwOverlap = true
							}
						}
					}
				}
			}
		}
	}
	return
}

func describeOp(p *Program, op Op) string {
	cond := ""
	if op.Cond != 0 {
		cond = fmt.Sprintf(" if %s %d", []string{"", "==", "!=", ">", ">=", "<", "<="}[op.Cond], op.CV)
	}
	switch op.K {
	case "set":
		m := []string{"upsert", "insert-only", "update-only", "upsert-string"}[op.Mode&3]
		return fmt.Sprintf("Set[%s](%d)", m, op.N)
	case "inc":
		return fmt.Sprintf("Inc(%+d%s)", op.N, cond)
	case "patch":
		k := "INC"
		if op.Mode&2 != 0 {
			k = "SET"
		}
		c := ""
		if op.Mode&1 != 0 {
			c = ",create"
		}
		return fmt.Sprintf("Patch(%s n %+d%s%s)", k, op.N, c, cond)
	}
	return op.K
}

func describeResp(op Op, r Resp) string {
	switch {
	case r.Nil:
		return "(nil,nil)"
	case r.Err != "":
		return "err:" + r.Err
	case r.Malf != "":
		return "malformed:" + r.Malf
	}
	switch op.K {
	case "set", "del":
		return hydrapb.Status_Code(r.Status).String()
	case "patch":
		return hydrapb.PatchResult_StatusCode(r.Status).String()
	case "inc":
		return fmt.Sprintf("%s inc=%v", r.Val, r.Inc)
	case "get", "shift":
		if !r.Exists {
			return "absent"
		}
		return r.Val.String()
	}
	return ""
}

// describeHistory renders the events of one key ordered by call time.
func describeHistory(p *Program, evs []Event, key int) string {
	var l []Event
	for _, ev := range evs {
		if ev.Op.Key == key {
			l = append(l, ev)
		}
	}
	sort.Slice(l, func(i, j int) bool { return l[i].Call < l[j].Call })
	var sb strings.Builder
	for _, ev := range l {
		who := fmt.Sprintf("c%d", ev.Client)
		if ev.Client == clientSetup {
			who = "setup"
		} else if ev.Client == clientFinal {
			who = "final"
		}
		ret := fmt.Sprintf("%d", ev.Ret/1000)
		if !ev.Done {
			ret = "never"
		}
		fmt.Fprintf(&sb, "[%s %d..%sµs %s -> %s] ", who, ev.Call/1000, ret, describeOp(p, ev.Op), describeResp(ev.Op, ev.Resp))
	}
	return sb.String()
}

var _ = codes.OK
