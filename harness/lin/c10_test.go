package lin

import (
	"bufio"
	"bytes"
	"encoding/json"
	"flag"
	"fmt"
	"os"
	"os/exec"
	"path/filepath"
	"regexp"
	"runtime"
	"runtime/debug"
	"sort"
	"strconv"
	"strings"
	"testing"
	"time"

	"pgregory.net/rapid"

	"verifharness/internal/pbt"
	"verifharness/internal/rig"
)

// C10 — Concurrent use never crashes the server or races on memory.
//
// The parent (this test) draws client programs with rapid — the C09 vocabulary
// plus bulk readers (GetAll, GetByKeys, GetByIndex with cold index builds,
// GetByIndexStream over real gRPC with/without filters, Count) and versioned
// keys — and hands them in batches to CHILD processes: the same test binary
// built with -race, started with VERIF_LIN_CHILD=<batch file>. The child runs
// every program against one in-process rig and appends one result line per
// program; the race detector logs to GORACE log_path.
//
// Oracle
//   (i)   the child must not die: no "fatal error:" (e.g. concurrent map iteration
//         and map write), no escaped panic, no non-zero exit; no request may
//         answer (nil, nil) and no panic record may be logged;
//   (ii)  every race-detector report is reduced to the pair of engine functions
//         that performed the two accesses (line numbers stripped); a pair outside
//         the signatures of the recorded findings is a violation;
//   (iii) versioned reads: every Set on a versioned key stores value n together
//         with UpdatedBy "w<client>:<n>" in ONE request (n unique per Set); every
//         record any read returns must carry a pair one single Set wrote.

const childEnv = "VERIF_LIN_CHILD"

// ---------------------------------------------------------------------------
// child side

type childResult struct {
	Index     int            `json:"index"`
	Started   bool           `json:"started,omitempty"` // "START" marker line
	Config    int            `json:"config"`
	Panics    int            `json:"panics"`
	PanicMsg  string         `json:"panic_msg,omitempty"`
	PanicFrom []string       `json:"panic_from,omitempty"` // first engine frame of each recovered panic
	Nil       []string       `json:"nil,omitempty"`
	Malformed []string       `json:"malformed,omitempty"`
	Hung      int            `json:"hung,omitempty"`
	HungWhat  string         `json:"hung_what,omitempty"`
	ReadBad   []string       `json:"read_bad,omitempty"`
	IndexBad  []string       `json:"index_bad,omitempty"` // churn facet: quiescent index listing vs the records that must exist
	SortAbort []string       `json:"sort_abort,omitempty"`
	Reads     int            `json:"reads"`
	RWOverlap bool           `json:"rw_overlap"`
	Classes   []string       `json:"classes,omitempty"`
	RaceFrom  int64          `json:"race_from"` // race log size before / after the program
	RaceTo    int64          `json:"race_to"`
	Errors    map[string]int `json:"errors,omitempty"`
}

func raceLogSize(prefix string) int64 {
	if prefix == "" {
		return 0
	}
	st, err := os.Stat(fmt.Sprintf("%s.%d", prefix, os.Getpid()))
	if err != nil {
		return 0
	}
	return st.Size()
}

func childMain() int {
	batchFile := os.Getenv(childEnv)
	b, err := os.ReadFile(batchFile)
	if err != nil {
		fmt.Fprintln(os.Stderr, "child: cannot read batch:", err)
		return 3
	}
	var batch struct {
		Programs []Program `json:"programs"`
		Out      string    `json:"out"`
		RaceLog  string    `json:"race_log"`
		Repeat   int       `json:"repeat"`
		Root     string    `json:"root"` // data root inside the parent's scratch dir (removed by the parent)
	}
	if err := json.Unmarshal(b, &batch); err != nil {
		fmt.Fprintln(os.Stderr, "child: cannot decode batch:", err)
		return 3
	}
	out, err := os.OpenFile(batch.Out, os.O_APPEND|os.O_CREATE|os.O_WRONLY, 0o644)
	if err != nil {
		fmt.Fprintln(os.Stderr, "child: cannot open result file:", err)
		return 3
	}
	defer out.Close()
	emit := func(cr childResult) {
		js, _ := json.Marshal(cr)
		out.Write(append(js, '\n'))
		out.Sync()
	}
	if batch.Root != "" {
		os.MkdirAll(batch.Root, 0o755)
	}
	r := rig.New(rig.Options{Patterns: linPatterns, Root: batch.Root})
	installPanicTap()
	cli := r.Serve()
	rep := batch.Repeat
	if rep < 1 {
		rep = 1
	}
	for i := range batch.Programs {
		for k := 0; k < rep; k++ {
			p := &batch.Programs[i]
			emit(childResult{Index: i, Started: true})
			cr := childResult{Index: i, Config: p.Config, RaceFrom: raceLogSize(batch.RaceLog), Errors: map[string]int{}}
			sn := swampFor(p.Config)
			res := RunProgram(r, cli, sn, p, 120*time.Second)
			cr.Panics = res.PanicsBy
			if res.PanicsBy > 0 {
				cr.PanicMsg = firstPanicText(res)
				for _, pt := range res.PanicTexts {
					cr.PanicFrom = append(cr.PanicFrom, panicOrigin(pt))
				}
			}
			writers, readers := map[int]bool{}, map[int]bool{}
			for _, ev := range res.Events {
				if ev.Client >= clientSetup {
					continue
				}
				d := fmt.Sprintf("client %d %s", ev.Client, describeOp(p, ev.Op))
				if ev.Resp.Nil {
					cr.Nil = append(cr.Nil, d)
				}
				if ev.Resp.Malf != "" {
					cr.Malformed = append(cr.Malformed, d+": "+ev.Resp.Malf)
				}
				if ev.Resp.Err != "" {
					cr.Errors[ev.Op.K+":"+ev.Resp.Err]++
				}
				if isWrite(ev.Op.K) {
					writers[ev.Client] = true
				} else {
					readers[ev.Client] = true
				}
			}
			cr.RWOverlap = readerOverlapsWriter(res.Events)
			if p.Churn > 0 {
				cr.RWOverlap = anyOverlapsWriter(res.Events)
			}
			cr.ReadBad, cr.Reads = res.ReadViolations, res.Reads
			cr.IndexBad = res.IndexViolations
			cr.SortAbort = res.SortAborts
			if p.Churn > 0 {
				cr.Classes = append(cr.Classes, fmt.Sprintf("churn:%d", p.Churn))
			}
			seen := map[string]bool{}
			for _, c := range p.Clients {
				for _, op := range c {
					if !seen[op.K] {
						seen[op.K] = true
						cr.Classes = append(cr.Classes, "op:"+op.K)
					}
				}
			}
			sort.Strings(cr.Classes)
			cr.Classes = append(cr.Classes, "cfg:"+cfgNames[p.Config])
			if len(res.Hung) > 0 {
				cr.Hung = len(res.Hung)
				cr.HungWhat, _ = hangWitness()
				cr.RaceTo = raceLogSize(batch.RaceLog)
				emit(cr)
				// the rig is unusable now: leave without cleanup (the parent removes the root)
				fmt.Fprintln(os.Stderr, "child: stuck client, giving up; rig root:", r.Root)
				return 4
			}
			DestroySwamp(r, sn)
			cr.RaceTo = raceLogSize(batch.RaceLog)
			emit(cr)
		}
	}
	r.Cleanup()
	return 0
}

// readerOverlapsWriter: non-triviality rule of C10 — at least one read request
// overlapped in time with a write request of another client on the same swamp.
func readerOverlapsWriter(evs []Event) bool {
	var ws, rs []Event
	for _, ev := range evs {
		if ev.Client >= clientSetup {
			continue
		}
		if isWrite(ev.Op.K) {
			ws = append(ws, ev)
		} else {
			rs = append(rs, ev)
		}
	}
	for _, w := range ws {
		for _, r := range rs {
			if w.Client != r.Client && w.Call <= r.Ret && r.Call <= w.Ret {
				return true
			}
		}
	}
	return false
}

// resortAbortOnly: the quiescent listing differs from the model ONLY in its order, the swamp is
// persistent and the engine logged that a value re-sort gave up on a record without a value.
func resortAbortOnly(cr childResult) bool {
	if cr.Config == CfgMem || len(cr.SortAbort) == 0 {
		return false
	}
	typed := false
	for _, m := range cr.SortAbort {
		if strings.Contains(m, "is not an int64") {
			typed = true
		}
	}
	for _, b := range cr.IndexBad {
		if !strings.Contains(b, "is not sorted at position") {
			return false
		}
	}
	return typed
}

// anyOverlapsWriter: a request of one client overlapped in time a write request of another.
func anyOverlapsWriter(evs []Event) bool {
	for i, w := range evs {
		if w.Client >= clientSetup || !isWrite(w.Op.K) {
			continue
		}
		for j, o := range evs {
			if i != j && o.Client < clientSetup && o.Client != w.Client && w.Call <= o.Ret && o.Call <= w.Ret {
				return true
			}
		}
	}
	return false
}

// ---------------------------------------------------------------------------
// race report parsing

type racePair struct {
	A, B           string // engine functions of the two accesses, sorted
	StackA, StackB string // all frames of the access behind A / B
	Raw            string
}

var (
	reFrameFn = regexp.MustCompile(`^  (\S+)\(\)$`)
)

// shortFn strips the module path: github.com/hydraide/hydraide/app/core/hydra/swamp/treasure.(*treasure).SetContentInt64 -> treasure.(*treasure).SetContentInt64
func shortFn(fn string) string {
	if i := strings.LastIndex(fn, "/"); i >= 0 {
		fn = fn[i+1:]
	}
	// closures: swamp.(*swamp).Foo.func1 -> keep
	return fn
}

func skipFrame(fn string) bool {
	return strings.HasPrefix(fn, "runtime.") || strings.HasPrefix(fn, "sync.") || strings.HasPrefix(fn, "sync/atomic.") ||
		strings.HasPrefix(fn, "internal/") || strings.HasPrefix(fn, "maps.") || strings.HasPrefix(fn, "slices.") || strings.HasPrefix(fn, "sort.") ||
		strings.HasPrefix(fn, "iter.") || strings.HasPrefix(fn, "strings.") || strings.HasPrefix(fn, "bytes.") || strings.HasPrefix(fn, "reflect.")
}

// parseRaceReports splits a GORACE log into reports and reduces each to the
// pair of first non-runtime frames of the two conflicting accesses.
func parseRaceReports(log string) []racePair {
	var out []racePair
	for _, rep := range strings.Split(log, "==================") {
		if !strings.Contains(rep, "WARNING: DATA RACE") {
			continue
		}
		var tops, stacks []string
		lines := strings.Split(rep, "\n")
		inAccess := false
		var cur, curStack string
		flush := func() {
			tops = append(tops, cur)
			stacks = append(stacks, curStack)
		}
		for _, ln := range lines {
			switch {
			case strings.HasPrefix(ln, "Read at ") || strings.HasPrefix(ln, "Write at ") || strings.HasPrefix(ln, "Previous read at ") || strings.HasPrefix(ln, "Previous write at ") ||
				strings.HasPrefix(ln, "Atomic read at ") || strings.HasPrefix(ln, "Previous atomic read at ") || strings.HasPrefix(ln, "Atomic write at ") || strings.HasPrefix(ln, "Previous atomic write at "):
				if inAccess {
					flush()
				}
				inAccess, cur, curStack = true, "", ""
			case strings.HasPrefix(ln, "Goroutine "):
				if inAccess {
					flush()
				}
				inAccess = false
			default:
				if inAccess {
					if m := reFrameFn.FindStringSubmatch(ln); m != nil {
						curStack += shortFn(m[1]) + ";"
						if cur == "" && !skipFrame(m[1]) {
							cur = shortFn(m[1])
						}
					}
				}
			}
		}
		if inAccess {
			flush()
		}
		for len(tops) < 2 {
			tops = append(tops, "?")
			stacks = append(stacks, "")
		}
		a, b, sa, sb := tops[0], tops[1], stacks[0], stacks[1]
		if a > b {
			a, b, sa, sb = b, a, sb, sa
		}
		raw := strings.TrimSpace(rep)
		if len(raw) > 1800 {
			raw = raw[:1800] + "…"
		}
		out = append(out, racePair{A: a, B: b, StackA: sa, StackB: sb, Raw: raw})
	}
	return out
}

// signatures of the recorded findings
const (
	wSetGet  = "treasure-setters-vs-getters"
	wGetAll  = "beacon-getall-live-map"
	wSaveRst = "save-flag-reset-after-guard-release"
	wResort  = "resort-aborted-by-record-mid-deletion"
	tMethods = `treasure\.\(\*treasure\)\.`
)

var (
	reTreasureWriter = regexp.MustCompile(`^` + tMethods + `(Set|Reset|Body|LoadFrom|Uint32Slice(Push|Delete))`)
	reTreasureSave   = regexp.MustCompile(`^` + tMethods + `Save$`)
	reTreasureReader = regexp.MustCompile(`^` + tMethods + `(Get|Is|Clone|cloneContent|ConvertToByte|CheckIfContentChanged|Uint32Slice(GetAll|Size))`)
	// users of the live key map that beacon.GetAll hands out
	reLiveMapUser   = regexp.MustCompile(`^(gateway\.Gateway\.GetAll|swamp\.\(\*swamp\)\.treasuresForBeacon|swamp\.\(\*swamp\)\.(GetAll|buildBeacon|CountMatchingTreasures)|beacon\.\(\*beacon\)\.PushManyFromMap)`)
	reFileNameDeref = regexp.MustCompile(`^swamp\.\(\*swamp\)\.(SaveFunction|deleteHandler)$`)
	reLiveMapStack  = regexp.MustCompile(`gateway\.Gateway\.(GetAll|GetByIndex|GetByIndexStream);|swamp\.\(\*swamp\)\.(treasuresForBeacon|buildBeacon|GetTreasuresByBeacon|deleteTreasureFromBeacons|addTo\w+Beacon);|beacon\.\(\*beacon\)\.(Sort\w+|GetManyFromOrderPosition|PushManyFromMap|Delete)`)
	reBeaconMapMut  = regexp.MustCompile(`^beacon\.\(\*beacon\)\.(Add|Delete|PushManyFromMap|PushManyFromSlice|ShiftOne|ShiftMany|ShiftExpired|ShiftMatching|Reset|CloneUnorderedTreasures)`)
)

// classifyPair returns the witness name of the recorded finding a race pair belongs to ("" = none).
func classifyPair(p racePair) string {
	if (reTreasureWriter.MatchString(p.A) && reTreasureReader.MatchString(p.B)) || (reTreasureWriter.MatchString(p.B) && reTreasureReader.MatchString(p.A)) {
		return wSetGet
	}
	// the *string that GetFileName hands out (RLock only) points into memory written by
	// BodySetFileName (no t.mu): the caller's dereference races with that write
	if (p.A == "treasure.(*treasure).BodySetFileName" && reFileNameDeref.MatchString(p.B)) || (p.B == "treasure.(*treasure).BodySetFileName" && reFileNameDeref.MatchString(p.A)) {
		return wSetGet
	}
	// the byte slice of a patched body is handed to readers by reference (GetContentByteArray
	// returns the internal slice, published by SetContentByteArray without t.mu): whoever
	// looks at the response bytes (here the harness decoding BytesVal, in production the
	// protobuf marshaller) races with the writer that filled the slice
	// (server-side readers of that slice: the filter evaluation of a concurrent read — gateway.isMsgpackEncoded
	// and the msgpack walkers behind it — look at the bytes GetContentByteArray handed them)
	// wrapMsgpackBody fills a slice it has just allocated; another goroutine can only touch that
	// memory without a happens-before edge if the slice was published without synchronisation, and its
	// only publication is SetContentByteArray under the record guard (the recorded finding). Whoever
	// the reader is — the harness decoding a response, a filter walking the body, an io.Reader over it,
	// the protobuf marshaller — the pair belongs to that finding.
	if p.A == "swamp.wrapMsgpackBody" || p.B == "swamp.wrapMsgpackBody" {
		return wSetGet
	}
	// same reasoning for a body the CLIENT sent in a Set: the harness fills a fresh slice in
	// lin.bodyBytes, the in-process handler stores it by reference (SetContentByteArray), and a
	// reader (e.g. the gRPC stream marshaller, protowire.AppendBytes) gets it from GetContentByteArray
	if p.A == "lin.bodyBytes" || p.B == "lin.bodyBytes" {
		return wSetGet
	}
	if (reTreasureSave.MatchString(p.A) && reTreasureWriter.MatchString(p.B)) || (reTreasureSave.MatchString(p.B) && reTreasureWriter.MatchString(p.A)) {
		return wSaveRst
	}
	if (reLiveMapUser.MatchString(p.A) && reBeaconMapMut.MatchString(p.B)) || (reLiveMapUser.MatchString(p.B) && reBeaconMapMut.MatchString(p.A)) {
		return wGetAll
	}
	// a record reached through the live map (no lock => no happens-before with the goroutine
	// that built it): the reader's access conflicts with the initialising write in treasure.New
	// (index beacons filled from the live map by PushManyFromMap keep handing such records
	// to later index reads, so every bulk / index read path can be the reader)
	if p.A == "treasure.New" && strings.Contains(p.StackA, "CreateTreasure;") && reLiveMapStack.MatchString(p.StackB) {
		return wGetAll
	}
	if p.B == "treasure.New" && strings.Contains(p.StackB, "CreateTreasure;") && reLiveMapStack.MatchString(p.StackA) {
		return wGetAll
	}
	return ""
}

// ---------------------------------------------------------------------------
// parent side

func harnessDir() string {
	_, file, _, _ := runtime.Caller(0)
	return filepath.Dir(filepath.Dir(file))
}

// raceBinary returns a -race build of this test binary.
func raceBinary(t *testing.T, scratch string) (string, string) {
	if b := os.Getenv("VERIF_BIN"); b != "" {
		return b, "VERIF_BIN"
	}
	if raceBuilt {
		return os.Args[0], "self (built with -race)"
	}
	tags := os.Getenv("VERIF_GO_TAGS")
	overlay := os.Getenv("VERIF_GO_OVERLAY")
	if tags == "" {
		tags = "verif"
		if bi, ok := debug.ReadBuildInfo(); ok {
			for _, s := range bi.Settings {
				if s.Key == "-tags" && s.Value != "" {
					tags = s.Value
				}
			}
		}
	}
	if overlay == "" && strings.Contains(tags, "verifvsched") {
		// the perturbation overlay is unknown here: build the child without it (the
		// race detector does not depend on it)
		var keep []string
		for _, tg := range strings.Split(tags, ",") {
			if tg != "verifvsched" {
				keep = append(keep, tg)
			}
		}
		tags = strings.Join(keep, ",")
	}
	bin := filepath.Join(scratch, "lin.race.test")
	args := []string{"test", "-c", "-race", "-vet=off", "-tags", tags, "-o", bin}
	if overlay != "" {
		args = append(args, "-overlay", overlay)
	}
	args = append(args, "./lin/")
	cmd := exec.Command("go", args...)
	cmd.Dir = harnessDir()
	cmd.Env = append(os.Environ(), "GOFLAGS=-mod=mod", "GOPROXY=off", "GOWORK=off")
	start := time.Now()
	if outp, err := cmd.CombinedOutput(); err != nil {
		t.Fatalf("cannot build the -race child binary: %v\n%s", err, outp)
	}
	return bin, fmt.Sprintf("built in %.0fs with tags %q overlay %q", time.Since(start).Seconds(), tags, overlay)
}

type batchOutcome struct {
	results  []childResult
	started  int // index of the last program that was started
	exit     int
	stderr   string
	raceLog  string
	wallS    float64
	finished bool
}

func runChild(bin, scratch string, id int, progs []Program, repeat int) batchOutcome {
	bf := filepath.Join(scratch, fmt.Sprintf("batch-%d.json", id))
	of := filepath.Join(scratch, fmt.Sprintf("out-%d.jsonl", id))
	rl := filepath.Join(scratch, fmt.Sprintf("race-%d", id))
	root := filepath.Join(scratch, fmt.Sprintf("root-%d", id))
	defer os.RemoveAll(root)
	js, _ := json.Marshal(map[string]any{"programs": progs, "out": of, "race_log": rl, "repeat": repeat, "root": root})
	os.WriteFile(bf, js, 0o644)
	cmd := exec.Command(bin, "-test.run", "^$")
	cmd.Env = append(os.Environ(), childEnv+"="+bf, "GORACE=halt_on_error=0 exitcode=0 log_path="+rl, "VERIF_STATS_OUT=")
	var stderr bytes.Buffer
	cmd.Stderr = &stderr
	cmd.Stdout = &stderr
	start := time.Now()
	err := cmd.Run()
	bo := batchOutcome{started: -1, wallS: time.Since(start).Seconds()}
	if err != nil {
		if ee, ok := err.(*exec.ExitError); ok {
			bo.exit = ee.ExitCode()
		} else {
			bo.exit = -1
		}
	}
	bo.stderr = stderr.String()
	if fh, err := os.Open(of); err == nil {
		sc := bufio.NewScanner(fh)
		sc.Buffer(make([]byte, 1<<20), 16<<20)
		for sc.Scan() {
			var cr childResult
			if json.Unmarshal(sc.Bytes(), &cr) != nil {
				continue
			}
			if cr.Started {
				bo.started = cr.Index
				continue
			}
			bo.results = append(bo.results, cr)
		}
		fh.Close()
	}
	files, _ := filepath.Glob(rl + ".*")
	for _, f := range files {
		if b, err := os.ReadFile(f); err == nil {
			bo.raceLog += string(b)
		}
	}
	bo.finished = bo.exit == 0
	return bo
}

var reFatal = regexp.MustCompile(`(?m)^(fatal error: .*|panic: .*)$`)

// fatalSignature classifies a dead child: witness name of the recorded finding or "".
func fatalSignature(stderr string) (string, string) {
	m := reFatal.FindString(stderr)
	if m == "" {
		return "", ""
	}
	if strings.Contains(m, "concurrent map iteration and map write") || strings.Contains(m, "concurrent map read and map write") || strings.Contains(m, "concurrent map writes") {
		// the faulting goroutine ("goroutine N [running]:" first after the message) must be a user of the live key map
		rest := stderr[strings.Index(stderr, m):]
		if i := strings.Index(rest, "\n\ngoroutine "); i >= 0 {
			g := rest[i+2:]
			if j := strings.Index(g, "\n\n"); j >= 0 {
				g = g[:j]
			}
			if strings.Contains(g, "gateway.Gateway.GetAll") || strings.Contains(g, "treasuresForBeacon") || strings.Contains(g, "PushManyFromMap") || strings.Contains(g, "(*swamp).buildBeacon") {
				return wGetAll, m
			}
			// the iterating side may be the OTHER goroutine; the writer side is then a beacon map mutation under its lock
			if strings.Contains(g, "beacon.(*beacon).Add") || strings.Contains(g, "beacon.(*beacon).Delete") {
				if strings.Contains(stderr, "gateway.Gateway.GetAll") || strings.Contains(stderr, "treasuresForBeacon") {
					return wGetAll, m
				}
			}
		}
	}
	return "", m
}

func c10Cfg() GenCfg {
	return GenCfg{Configs: []int{CfgMem, CfgInterval, CfgImmediate}, MaxPlan: 3, Readers: true}
}

const c10Rule = "rapid-drawn program as in C09 (2–6 clients × 3–12 requests, all write kinds incl. Delete/ShiftByKeys/Set modes) extended with readers GetAll, GetByKeys, GetByIndex (6 index/order variants, cold build), " +
	"GetByIndexStream over gRPC with/without filters, Count, and versioned keys; batches of programs run in a child process built with -race (GORACE halt_on_error=0); " +
	"oracle: child survives (no fatal error / escaped panic), no (nil,nil) response or panic record, every race report reduced to its (function, function) pair must match the signature of a recorded finding, " +
	"every record read from a versioned key carries a (value, UpdatedBy) pair written by one single Set; non-trivial = a read request overlapped in time a write request of another client on the same swamp"

type c10Totals struct {
	programs, nontrivial                     int
	pairs                                    map[string]int // "A × B" -> count
	known                                    map[string]int // witness -> reports
	knownDetail                              map[string]string
	unknownPairs                             map[string]racePair
	unknownProgram                           map[string]*Program
	fatals, fatalsKnown, tornReads, nilResps int
	deaths                                   int
	wall                                     float64
	childRuns                                int
}

// c10Facet is the facet the campaign currently reports under.
var c10Facet = "main"

// genStorm: writers insert (and remove) bursts of records while readers loop
// over GetAll / cold and warm index reads of the same swamp.
func genStorm(t *rapid.T) Program {
	p := Program{Config: rapid.IntRange(0, 2).Draw(t, "config"), Keys: []KeySpec{{Kind: KindI64, Owner: -1, Init: true, InitN: 1}}}
	nw := rapid.IntRange(1, 3).Draw(t, "writers")
	nr := rapid.IntRange(1, 3).Draw(t, "readers")
	size := rapid.SampledFrom([]int{20, 60, 150}).Draw(t, "burst")
	for w := 0; w < nw; w++ {
		var ops []Op
		for j := 0; j < 4; j++ {
			ops = append(ops, Op{K: "burst", Key: -1, N: int64(size), Mode: rapid.IntRange(0, 1).Draw(t, "del"), CV: int64(j)})
		}
		p.Clients = append(p.Clients, ops)
	}
	for r := 0; r < nr; r++ {
		var ops []Op
		for j := 0; j < 12; j++ {
			switch rapid.IntRange(0, 2).Draw(t, "reader") {
			case 0:
				ops = append(ops, Op{K: "getall", Key: -1})
			case 1:
				ops = append(ops, Op{K: "index", Key: -1, Mode: rapid.IntRange(0, len(indexVariants)-1).Draw(t, "ivar")})
			default:
				ops = append(ops, Op{K: "stream", Key: -1, Mode: rapid.IntRange(0, 2*len(indexVariants)-1).Draw(t, "svar")})
			}
		}
		p.Clients = append(p.Clients, ops)
	}
	return p
}

const c10StormRule = "1–3 writer clients × 4 bursts (one Set request inserting 20/60/150 new records, optionally one Delete request removing them) against 1–3 reader clients × 12 GetAll / GetByIndex (cold + warm) / GetByIndexStream on the same swamp, in a -race child; same oracle as the main facet"

func TestC10Storm(t *testing.T) {
	c10Campaign(t, "storm", c10StormRule, genStorm, pbt.Count(12, 240), 6)
}

// genFromEmpty: the swamp does not exist when the clients start and there is no anchor record.
// 1–3 writers run insert-then-delete bursts of 1–20 NEW records (one Set request, one Delete
// request): every time the last record goes the swamp auto-destroys and the next burst
// summons a fresh, EMPTY swamp whose indexes are all cold. 1–3 readers loop first-time index
// reads of every kind, streams, GetAll and Count against it.
func genFromEmpty(t *rapid.T) Program {
	p := Program{Config: rapid.IntRange(0, 2).Draw(t, "config"), NoAnchor: true}
	nw := rapid.SampledFrom([]int{1, 1, 2, 3}).Draw(t, "writers")
	nr := rapid.IntRange(1, 3).Draw(t, "readers")
	for w := 0; w < nw; w++ {
		var ops []Op
		n := rapid.IntRange(20, 40).Draw(t, "cycles")
		for j := 0; j < n; j++ {
			ops = append(ops, Op{K: "burst", Key: -1, N: int64(rapid.SampledFrom([]int{1, 2, 5, 20}).Draw(t, "burst")), Mode: 1, CV: int64(j)})
		}
		p.Clients = append(p.Clients, ops)
	}
	for r := 0; r < nr; r++ {
		var ops []Op
		n := rapid.IntRange(40, 80).Draw(t, "reads")
		for j := 0; j < n; j++ {
			switch rapid.IntRange(0, 5).Draw(t, "reader") {
			case 0:
				ops = append(ops, Op{K: "getall", Key: -1})
			case 1:
				ops = append(ops, Op{K: "count", Key: -1})
			case 2:
				ops = append(ops, Op{K: "stream", Key: -1, Mode: rapid.IntRange(0, 2*len(indexVariants)-1).Draw(t, "svar")})
			default:
				ops = append(ops, Op{K: "index", Key: -1, Mode: rapid.IntRange(0, len(indexVariants)-1).Draw(t, "ivar")})
			}
		}
		p.Clients = append(p.Clients, ops)
	}
	return p
}

const c10EmptyRule = "no anchor, the swamp does not exist when the clients start: 1–3 writers × 20–40 cycles (one Set inserting 1/2/5/20 NEW records, one Delete removing them — the swamp auto-destroys with its last record and the next Set " +
	"summons a fresh empty swamp with cold indexes) against 1–3 readers × 40–80 first-time GetByIndex of 8 index/order kinds, GetByIndexStream, GetAll, Count; -race child; same oracle as the main facet; " +
	"non-trivial = a read overlapped a write of another client"

func TestC10FromEmpty(t *testing.T) {
	c10Campaign(t, "fromempty", c10EmptyRule, genFromEmpty, pbt.Count(64, 3200), 8)
}

// genChurn: see churn.go. 2–4 value writers re-sort the built VALUE_INT64 index while 1–3
// removers Delete / ShiftByKeys other records, 0–2 inserters add new ones and 0–2 readers
// page the index; record x<i> belongs to client i % clients.
func genChurn(t *rapid.T) Program {
	p := Program{Config: rapid.IntRange(0, 2).Draw(t, "config"), Churn: rapid.SampledFrom([]int{30, 120, 400}).Draw(t, "records")}
	nw := rapid.IntRange(2, 4).Draw(t, "writers")
	nd := rapid.IntRange(1, 3).Draw(t, "removers")
	na := rapid.IntRange(0, 2).Draw(t, "inserters")
	nr := rapid.IntRange(0, 2).Draw(t, "readers")
	nc := nw + nd + na + nr
	own := func(c, j int) int64 { // j-th record of client c among the pre-filled ones
		per := p.Churn / nc
		if per < 1 {
			per = 1
		}
		return int64(c + (j%per)*nc)
	}
	for c := 0; c < nc; c++ {
		var ops []Op
		n := rapid.IntRange(12, 30).Draw(t, "nops")
		for j := 0; j < n; j++ {
			switch {
			case c < nw:
				ops = append(ops, Op{K: "xset", Key: -1, N: own(c, rapid.IntRange(0, 1000).Draw(t, "rec")), CV: int64(rapid.IntRange(0, 2000).Draw(t, "val"))})
			case c < nw+nd:
				k := "xdel"
				if rapid.IntRange(0, 2).Draw(t, "shift") == 0 {
					k = "xshift"
				}
				ops = append(ops, Op{K: k, Key: -1, N: own(c, j)})
			case c < nw+nd+na:
				// new records beyond the pre-filled range, still owned by this client
				ops = append(ops, Op{K: "xset", Key: -1, N: int64(p.Churn + nc + c + j*nc), CV: int64(rapid.IntRange(0, 2000).Draw(t, "val"))})
			default:
				ops = append(ops, Op{K: "xindex", Key: -1, Mode: rapid.IntRange(0, 1).Draw(t, "desc"), CV: int64(rapid.IntRange(0, 40).Draw(t, "from")), N: int64(rapid.IntRange(0, 50).Draw(t, "limit"))})
			}
		}
		p.Clients = append(p.Clients, ops)
	}
	return p
}

const c10ChurnRule = "swamp of 30/120/400 int64 records with the VALUE_INT64 (asc+desc) and KEY indexes already built; 2–4 clients change values (every Set re-sorts the value index), 1–3 clients Delete/ShiftByKeys OTHER records, " +
	"0–2 insert new records, 0–2 page the index; each record belongs to exactly one client; -race child; oracle: main-facet clauses (no death, no (nil,nil), no panic record, race pairs) + after all clients returned GetAll and the full " +
	"VALUE_INT64 ASC/DESC listings hold exactly the records that must exist with their last written values, without duplicates, in value order; non-trivial = a read or write of one client overlapped a write of another"

func TestC10Churn(t *testing.T) {
	c10Campaign(t, "churn", c10ChurnRule, genChurn, pbt.Count(96, 4800), 12)
}

func TestC10Main(t *testing.T) {
	perChild := 40
	if pbt.GetEnv().Tier == "thorough" {
		perChild = 200
	}
	c10Campaign(t, "main", c10Rule, GenProgram(c10Cfg()), pbt.Count(640, 9600), perChild)
}

func c10Campaign(t *testing.T, facet, rule string, gen func(*rapid.T) Program, n, perChild int) {
	c10Facet = facet
	defer pbt.Flush()
	scratch, err := os.MkdirTemp("/dev/shm", "verif-c10-")
	if err != nil {
		scratch, err = os.MkdirTemp("", "verif-c10-")
		if err != nil {
			t.Fatal(err)
		}
	}
	defer os.RemoveAll(scratch)
	bin, how := raceBinary(t, scratch)
	pbt.Extra("C10", "race_binary", how)

	// --- programs: saved replays first, then freshly drawn ones
	var replays []Program
	var replayFiles []string
	{
		var files []string
		if f := pbt.GetEnv().Replay; f != "" {
			files = []string{f}
		} else {
			files, _ = filepath.Glob(filepath.Join(pbt.GetEnv().VerifRoot, "replays", "C10", facet, "*.json"))
			sort.Strings(files)
		}
		for _, f := range files {
			b, err := os.ReadFile(f)
			if err != nil {
				continue
			}
			var rf pbt.ReplayFile
			var p Program
			if json.Unmarshal(b, &rf) != nil || rf.Property != "C10" || rf.Facet != facet || json.Unmarshal(rf.Scenario, &p) != nil || len(p.Clients) == 0 {
				continue
			}
			replays = append(replays, p)
			replayFiles = append(replayFiles, f)
		}
	}
	var progs []Program
	if pbt.GetEnv().Replay == "" {
		seed := pbt.RapidSeed("C10/" + facet)
		flag.Set("rapid.seed", strconv.FormatUint(seed, 10))
		flag.Set("rapid.checks", strconv.Itoa(n))
		flag.Set("rapid.nofailfile", "true")
		t.Run("gen", func(t *testing.T) {
			rapid.Check(t, func(rt *rapid.T) {
				p := gen(rt)
				if len(progs) < n {
					progs = append(progs, p)
				}
			})
		})
	}

	tot := &c10Totals{pairs: map[string]int{}, known: map[string]int{}, knownDetail: map[string]string{}, unknownPairs: map[string]racePair{}, unknownProgram: map[string]*Program{}}
	violation := func(shape, msg string, p *Program, extra map[string]any) {
		doc := map[string]any{"program": p}
		for k, v := range extra {
			doc[k] = v
		}
		var path string
		if p != nil {
			path = pbt.WriteReplayJSON("C10", facet, p)
		}
		pbt.ReportViolation("C10", facet, path, shape, msg)
		t.Errorf("[%s] %s (replay %s)", shape, msg, path)
	}

	runAll := func(list []Program, repeat int, label string) {
		id := 0
		for off := 0; off < len(list); {
			end := off + perChild
			if end > len(list) {
				end = len(list)
			}
			chunk := list[off:end]
			bo := runChild(bin, scratch, tot.childRuns, chunk, repeat)
			tot.childRuns++
			tot.wall += bo.wallS
			id++
			c10Judge(t, tot, rule, chunk, bo, violation)
			if bo.finished || bo.started < 0 {
				if !bo.finished && bo.started < 0 {
					violation("child-failed", fmt.Sprintf("%s: child exited with %d before starting any program: %s", label, bo.exit, tail(bo.stderr, 600)), nil, nil)
				}
				off = end
				continue
			}
			// the child died while program bo.started ran: continue behind it
			tot.deaths++
			off += bo.started + 1
		}
	}
	if len(replays) > 0 {
		runAll(replays, 5, "replays")
	}
	runAll(progs, 1, "generated")

	// --- evidence
	keys := make([]string, 0, len(tot.pairs))
	for k := range tot.pairs {
		keys = append(keys, k)
	}
	sort.Strings(keys)
	pairList := []string{}
	for _, k := range keys {
		pairList = append(pairList, fmt.Sprintf("%s  ×%d", k, tot.pairs[k]))
	}
	pbt.Extra("C10", facet+"_race_pairs", pairList)
	pbt.Extra("C10", facet+"_child_runs", tot.childRuns)
	pbt.Extra("C10", facet+"_child_deaths", tot.deaths)
	pbt.Extra("C10", facet+"_child_wall_s", tot.wall)
	pbt.Extra("C10", facet+"_replayed_programs", len(replays))
	for _, w := range []string{wSetGet, wGetAll, wSaveRst, wTornGet, wResort} {
		if pbt.Open("C10", w) {
			pbt.ReportFinding("C10", w, tot.knownDetail[w], tot.programs, tot.known[w])
		}
	}
	_ = replayFiles
}

func tail(s string, n int) string {
	if len(s) > n {
		return "…" + s[len(s)-n:]
	}
	return s
}

func head(s string, n int) string {
	if len(s) > n {
		return s[:n] + "…"
	}
	return s
}

// c10Judge evaluates one child run.
func c10Judge(t *testing.T, tot *c10Totals, rule string, chunk []Program, bo batchOutcome, violation func(shape, msg string, p *Program, extra map[string]any)) {
	progAt := func(i int) *Program {
		if i >= 0 && i < len(chunk) {
			return &chunk[i]
		}
		return nil
	}
	// (iii) + (i, request level)
	for _, cr := range bo.results {
		p := progAt(cr.Index)
		tot.programs++
		if cr.RWOverlap {
			tot.nontrivial++
		}
		js, _ := json.Marshal(p)
		pbt.RecordCase("C10", c10Facet, rule, string(js), cr.RWOverlap, p, cr.Classes...)
		if len(cr.Nil) > 0 || cr.Panics > 0 {
			tot.nilResps++
			// a nil-pointer panic raised INSIDE a treasure getter is the crash form of the
			// recorded setters-vs-getters finding (the getter re-reads t.treasure.Content
			// after its nil check while a writer swaps / clears it)
			allGetter := len(cr.PanicFrom) > 0 && len(cr.PanicFrom) >= cr.Panics && len(cr.Nil) <= cr.Panics
			allLiveMap := allGetter
			for _, o := range cr.PanicFrom {
				if !reTreasureReader.MatchString(o) {
					allGetter = false
				}
				// a nil record handed out by the iteration of the live key map while it is written
				if o != "gateway.treasureToKeyValuePair" {
					allLiveMap = false
				}
			}
			for _, n := range cr.Nil {
				if !strings.HasSuffix(n, " getall") {
					allLiveMap = false
				}
			}
			msg := fmt.Sprintf("%s: %d request(s) answered (nil, nil) %v and %d panic record(s) were logged (raised in %v): %s", cfgNames[cr.Config], len(cr.Nil), cr.Nil, cr.Panics, cr.PanicFrom, cr.PanicMsg)
			if allGetter && pbt.Open("C10", wSetGet) {
				tot.known[wSetGet]++
				tot.knownDetail[wSetGet+"/panic"] = head(msg, 300)
			} else if allLiveMap && pbt.Open("C10", wGetAll) {
				tot.known[wGetAll]++
				tot.knownDetail[wGetAll+"/panic"] = head(msg, 300)
			} else {
				violation("panic", msg, p, nil)
			}
		}
		if len(cr.IndexBad) > 0 && resortAbortOnly(cr) && pbt.Open("C10", wResort) {
			// recorded finding: a re-sort gave up on a record whose content a concurrent Delete had
			// already cleared; only the ORDER clause is affected and the abort is in the log
			tot.known[wResort]++
			if tot.knownDetail[wResort] == "" {
				tot.knownDetail[wResort] = head(fmt.Sprintf("%s: %s; log: %s", cfgNames[cr.Config], strings.Join(cr.IndexBad, " | "), cr.SortAbort[0]), 300)
			}
		} else if len(cr.IndexBad) > 0 {
			violation("index-mismatch", fmt.Sprintf("%s, %d pre-filled int64 records, every record touched by one client only; after all clients returned: %s", cfgNames[cr.Config], p.Churn, strings.Join(cr.IndexBad, " | ")), p, nil)
		}
		if len(cr.Malformed) > 0 {
			violation("malformed", fmt.Sprintf("%s: %v", cfgNames[cr.Config], cr.Malformed), p, nil)
		}
		if cr.Hung > 0 {
			pbt.Note("C10", "a program left %d client(s) stuck (%s) — outside this property's statement, reported as a note; config %s", cr.Hung, cr.HungWhat, cfgNames[cr.Config])
		}
		if len(cr.ReadBad) > 0 {
			tot.tornReads++
			msg := fmt.Sprintf("%s: %s", cfgNames[cr.Config], strings.Join(cr.ReadBad, " | "))
			if pbt.Open("C10", wTornGet) {
				tot.known[wTornGet]++
				if tot.knownDetail[wTornGet] == "" {
					tot.knownDetail[wTornGet] = head(msg, 300)
				}
			} else {
				violation("torn-read", msg, p, nil)
			}
		}
	}
	// (ii) race reports
	for _, rp := range parseRaceReports(bo.raceLog) {
		key := rp.A + " × " + rp.B
		tot.pairs[key]++
		// attribute the report to the program whose log window holds it
		var p *Program
		pos := int64(strings.Index(bo.raceLog, rp.Raw[:min(len(rp.Raw), 200)]))
		for _, cr := range bo.results {
			if pos >= cr.RaceFrom && pos < cr.RaceTo {
				p = progAt(cr.Index)
			}
		}
		if p == nil {
			p = progAt(bo.started)
		}
		w := classifyPair(rp)
		if w == wSaveRst && (p == nil || p.Config != CfgImmediate) {
			w = "" // that finding exists in immediate-write mode only; elsewhere two writers inside one guard is something else
		}
		if w != "" && pbt.Open("C10", w) {
			tot.known[w]++
			if tot.knownDetail[w] == "" {
				tot.knownDetail[w] = "race report: " + key
			}
			continue
		}
		if _, dup := tot.unknownPairs[key]; dup {
			continue
		}
		tot.unknownPairs[key] = rp
		violation("data-race", fmt.Sprintf("race detector report outside the recorded signatures: %s\n%s", key, rp.Raw), p, nil)
	}
	// (i) process level
	if !bo.finished && bo.started >= 0 {
		w, line := fatalSignature(bo.stderr)
		p := progAt(bo.started)
		tot.fatals++
		switch {
		case w != "" && pbt.Open("C10", w):
			tot.fatalsKnown++
			tot.known[w]++
			tot.knownDetail[w] = "child process died: " + line
		case line != "":
			violation("fatal", fmt.Sprintf("the server process died while program %d of the batch ran: %s\n%s", bo.started, line, tail(bo.stderr, 1500)), p, nil)
		case bo.exit == 4:
			// stuck client, see note above
		default:
			violation("child-died", fmt.Sprintf("the child exited with status %d while program %d ran: %s", bo.exit, bo.started, tail(bo.stderr, 1200)), p, nil)
		}
	}
}

var _ = strconv.Itoa

// TestC10StressResort is a measuring aid (skipped unless LIN_STRESS=<programs>): it runs a
// remover-heavy churn workload on persisted records IN-PROCESS (no child, no race detector,
// hence many more programs per second) and prints how many programs logged a value re-sort
// that gave up ("failed to sort … is not an int64") and how many ended with an order /
// membership mismatch at quiescence. Used to compare HEAD with a candidate repair.
func TestC10StressResort(t *testing.T) {
	n, _ := strconv.Atoi(os.Getenv("LIN_STRESS"))
	if n <= 0 {
		t.Skip("LIN_STRESS not set")
	}
	flag.Set("rapid.seed", strconv.FormatUint(pbt.RapidSeed("C10/stress"), 10))
	flag.Set("rapid.checks", strconv.Itoa(n))
	flag.Set("rapid.nofailfile", "true")
	var progs []Program
	t.Run("gen", func(t *testing.T) {
		rapid.Check(t, func(rt *rapid.T) {
			p := Program{Config: CfgImmediate, Churn: rapid.SampledFrom([]int{120, 400}).Draw(rt, "records")}
			nw, nd := rapid.IntRange(3, 5).Draw(rt, "writers"), rapid.IntRange(3, 5).Draw(rt, "removers")
			nc := nw + nd
			per := p.Churn / nc
			for c := 0; c < nc; c++ {
				var ops []Op
				nops := 40
				if c < nw {
					// writers of different lengths: the LAST re-sort of the index must be able to
					// fall into the removers' busy phase
					nops = rapid.IntRange(4, 40).Draw(rt, "wops")
				}
				for j := 0; j < nops; j++ {
					rec := int64(c + (j%per)*nc)
					if c < nw {
						ops = append(ops, Op{K: "xset", Key: -1, N: int64(c + (rapid.IntRange(0, per-1).Draw(rt, "rec"))*nc), CV: int64(rapid.IntRange(0, 2000).Draw(rt, "val"))})
					} else if j%3 == 0 {
						ops = append(ops, Op{K: "xshift", Key: -1, N: rec})
					} else {
						ops = append(ops, Op{K: "xdel", Key: -1, N: rec})
					}
				}
				p.Clients = append(p.Clients, ops)
			}
			if len(progs) < n {
				progs = append(progs, p)
			}
		})
	})
	r := getRig()
	aborts, abortRecords, orderBad, memberBad, panics := 0, 0, 0, 0, 0
	for i := range progs {
		sn := swampFor(progs[i].Config)
		res := RunProgram(r, nil, sn, &progs[i], 60*time.Second)
		if len(res.Hung) > 0 {
			t.Fatalf("program %d hung", i)
		}
		DestroySwamp(r, sn)
		if len(res.SortAborts) > 0 {
			aborts++
			abortRecords += len(res.SortAborts)
		}
		ob, mb := false, false
		for _, b := range res.IndexViolations {
			if strings.Contains(b, "is not sorted at position") {
				ob = true
			} else {
				mb = true
			}
		}
		if ob {
			orderBad++
		}
		if mb {
			memberBad++
			t.Logf("program %d: %v", i, res.IndexViolations)
		}
		if res.PanicsBy > 0 {
			panics++
		}
	}
	t.Logf("STRESS programs=%d with-sort-abort-logged=%d sort-abort-records=%d quiescent-order-mismatch=%d quiescent-membership-mismatch=%d with-panic=%d",
		len(progs), aborts, abortRecords, orderBad, memberBad, panics)
}
