package lin

import (
	"pgregory.net/rapid"
)

// planSites is the fixed list of instrumented synchronisation sites (cmd/instrument
// -kind vsched) in guard.go, swamp.go, swamp_patch.go, beacon.go and the gateway
// that the generated perturbation plans draw from. TestC09Sites checks that the
// list still matches the instrumented sources.
var planSites = []string{
	"guard:StartTreasureGuard:Lock:b59f6c", "guard:StartTreasureGuard:atomic.AddInt64:d2989b", "guard:StartTreasureGuard:Wait:6a3259", "guard:StartTreasureGuard:atomic.AddInt64:d2989b~2",
	"guard:ReleaseTreasureGuard:Lock:b59f6c", "guard:ReleaseTreasureGuard:Unlock:68f18d", "guard:ReleaseTreasureGuard:Broadcast:f2434b",
	"guard:CanExecute:Lock:b59f6c",
	"swamp:IncrementUint8:StartTreasureGuard:f4a9b0", "swamp:IncrementInt64:StartTreasureGuard:f4a9b0", "swamp:IncrementFloat64:StartTreasureGuard:f4a9b0",
	"swamp:CreateTreasure:Lock:678d26", "swamp:CreateTreasure:Load:11fb0d", "swamp:CreateTreasure:StartTreasureGuard:064d1c", "swamp:CreateTreasure:ReleaseTreasureGuard:be803b", "swamp:CreateTreasure:Store:98e79a",
	"swamp:SaveFunction:atomic.StoreInt64:1cc3f1", "swamp:SaveFunction:Delete:8d391f", "swamp:SaveFunction:Add:f5250f", "swamp:SaveFunction:Add:2d20c0", "swamp:SaveFunction:Delete:783c17",
	"swamp:SaveFunction:RLock:a07071", "swamp:SaveFunction:RUnlock:a71ce7", "swamp:SaveFunction:ReleaseTreasureGuard:be803b", "swamp:SaveFunction:Add:f5250f~2", "swamp:SaveFunction:RLock:a07071~2",
	"swamp:SaveFunction:RUnlock:a71ce7~2", "swamp:SaveFunction:ReleaseTreasureGuard:be803b~2",
	"swamp:GetTreasure:atomic.StoreInt64:1cc3f1", "swamp:GetAll:atomic.StoreInt64:1cc3f1", "swamp:CountTreasures:atomic.StoreInt64:1cc3f1",
	"swamp:DeleteTreasure:atomic.StoreInt64:1cc3f1", "swamp:CloneAndDeleteTreasuresByKeys:atomic.StoreInt64:1cc3f1",
	"swamp:CloneAndDeleteTreasuresByKeys:StartTreasureGuard:fa71ce", "swamp:CloneAndDeleteTreasuresByKeys:ReleaseTreasureGuard:51890f",
	"swamp:TreasureExists:atomic.StoreInt64:1cc3f1",
	"swamp:fileWriterHandler:Lock:45b511", "swamp:fileWriterHandler:atomic.LoadInt32:e08ffc", "swamp:fileWriterHandler:atomic.StoreInt32:f55fb6", "swamp:fileWriterHandler:atomic.StoreInt32:f55fb6~2", "swamp:fileWriterHandler:Delete:8d391f",
	"swamp:deleteHandler:StartTreasureGuard:ac9b2b", "swamp:deleteHandler:Delete:8cd4c9", "swamp:deleteHandler:Add:d3b37d", "swamp:deleteHandler:Delete:cfa69e",
	"swamp_patch:PatchFields:StartTreasureGuard:f4a9b0", "swamp_patch:PatchFields:Delete:240e62",
	"gateway:Set:Load:10b549", "gateway:Set:BeginVigil:3b19eb", "gateway:Set:StartTreasureGuard:490611", "gateway:Get:Load:10b549", "gateway:Get:BeginVigil:3b19eb",
	"gateway:GetAll:BeginVigil:3b19eb", "gateway:ShiftByKeys:BeginVigil:3b19eb", "gateway:Delete:BeginVigil:3b19eb",
	"beacon:GetAll:RLock:554baa", "beacon:Get:atomic.StoreInt32:b20a54", "beacon:Get:RLock:554baa", "beacon:PushManyFromMap:Lock:e380a5", "beacon:Add:atomic.StoreInt32:b20a54", "beacon:Add:Lock:e380a5",
	"beacon:Delete:atomic.StoreInt32:b20a54", "beacon:Delete:Lock:e380a5", "beacon:IsExists:atomic.StoreInt32:b20a54", "beacon:IsExists:RLock:554baa", "beacon:Count:atomic.StoreInt32:b20a54", "beacon:Count:RLock:554baa",
}

// GenCfg steers the program generator. The exclusion flags are switched on by
// the test functions exactly while the corresponding finding is open.
type GenCfg struct {
	Configs []int // allowed configurations
	// SingleWriter: every shared key is written by ONE client only (the others
	// only read it).
	SingleWriter func(config int) bool
	NoShift      bool     // no ShiftByKeys on shared keys
	NoDelete     bool     // no Delete on shared keys
	NoSetModes   bool     // on shared keys Set only as upsert (no insert-only / update-only)
	NoStringSet  bool     // no string Set (type change) on shared keys
	NoDelPersist bool     // no Delete / ShiftByKeys on shared keys of persistent swamps
	InitAll      bool     // every shared key exists before the clients start
	NeverInit    bool     // no shared key exists before the clients start
	ModeBias     bool     // insert-only / update-only Sets are frequent
	OnlyOps      []string // when set: the op choices on shared keys (subset of rmw,set,del,shift,get)
	Readers      bool     // C10: bulk readers + versioned keys
	MaxPlan      int
	Force        func(t *rapid.T, p *Program) // post-processing hook of witness facets
}

func genPlan(t *rapid.T, max int) []PlanAction {
	n := rapid.IntRange(0, max).Draw(t, "nplan")
	var plan []PlanAction
	for i := 0; i < n; i++ {
		a := PlanAction{Site: rapid.SampledFrom(planSites).Draw(t, "site")}
		switch rapid.IntRange(0, 3).Draw(t, "akind") {
		case 0:
			a.Kind = "gosched"
			a.Hit = rapid.IntRange(0, 4).Draw(t, "hit")
		case 1:
			a.Kind = "sleep"
			a.Hit = rapid.IntRange(1, 6).Draw(t, "hit")
			a.SleepUs = rapid.SampledFrom([]int{20, 200, 1000, 3000}).Draw(t, "us")
		case 2:
			a.Kind = "sleep"
			a.Hit = 0
			a.SleepUs = rapid.SampledFrom([]int{5, 50, 150}).Draw(t, "us0")
		default:
			a.Kind = "pause"
			a.Hit = rapid.IntRange(1, 6).Draw(t, "hit")
			a.Until = "site:" + rapid.SampledFrom(planSites).Draw(t, "until")
			a.MaxWaitMs = rapid.SampledFrom([]int{1, 5, 20}).Draw(t, "maxwait")
		}
		plan = append(plan, a)
	}
	return plan
}

func genCond(t *rapid.T, kind int) (int, int64) {
	if rapid.IntRange(0, 1).Draw(t, "hascond") == 0 {
		return 0, 0
	}
	c := rapid.IntRange(1, 6).Draw(t, "cond")
	lo := -2
	if kind == KindU8 {
		lo = 0
	}
	return c, int64(rapid.IntRange(lo, 8).Draw(t, "cv"))
}

func genDelta(t *rapid.T, kind int) int64 {
	if kind == KindU8 {
		return int64(rapid.IntRange(1, 3).Draw(t, "delta"))
	}
	return rapid.SampledFrom([]int64{-3, -2, -1, 1, 2, 3}).Draw(t, "delta")
}

// GenProgram draws a client program.
func GenProgram(cfg GenCfg) func(t *rapid.T) Program {
	return func(t *rapid.T) Program {
		var p Program
		p.Config = rapid.SampledFrom(cfg.Configs).Draw(t, "config")
		nc := rapid.IntRange(2, 6).Draw(t, "clients")
		nshared := rapid.IntRange(1, 2).Draw(t, "shared")
		for i := 0; i < nshared; i++ {
			k := KeySpec{Kind: rapid.IntRange(0, 3).Draw(t, "kind"), Owner: -1}
			if cfg.Readers && rapid.IntRange(0, 1).Draw(t, "ver") == 1 {
				k.Ver = true
			}
			if !cfg.NeverInit && (cfg.InitAll || rapid.IntRange(0, 1).Draw(t, "init") == 1) {
				k.Init = true
				k.InitN = int64(rapid.IntRange(0, 9).Draw(t, "initn"))
			}
			p.Keys = append(p.Keys, k)
		}
		private := make([][]int, nc)
		for c := 0; c < nc; c++ {
			if rapid.IntRange(0, 2).Draw(t, "hasprivate") == 0 {
				private[c] = append(private[c], len(p.Keys))
				p.Keys = append(p.Keys, KeySpec{Kind: rapid.IntRange(0, 3).Draw(t, "pkind"), Owner: c})
			}
		}
		single := cfg.SingleWriter != nil && cfg.SingleWriter(p.Config)
		writer := make([]int, nshared)
		for i := range writer {
			writer[i] = rapid.IntRange(0, nc-1).Draw(t, "writer")
		}
		setCounter := 0
		for c := 0; c < nc; c++ {
			nops := rapid.IntRange(3, 12).Draw(t, "nops")
			var ops []Op
			for j := 0; j < nops; j++ {
				key := rapid.IntRange(0, nshared-1).Draw(t, "key")
				shared := true
				if len(private[c]) > 0 && rapid.IntRange(0, 3).Draw(t, "useprivate") == 0 {
					key = private[c][0]
					shared = false
				}
				ks := p.Keys[key]
				op := Op{Key: key}
				readOnly := shared && single && writer[key] != c
				// weights: rmw 5, set 3, del 1, shift 1, get 2 (+ readers)
				var choices []string
				if !readOnly {
					if !ks.Ver {
						choices = append(choices, "rmw", "rmw", "rmw", "rmw", "rmw")
					}
					choices = append(choices, "set", "set", "set")
					noDS := shared && cfg.NoDelPersist && p.Config != CfgMem
					if !(shared && cfg.NoDelete) && !noDS {
						choices = append(choices, "del")
					}
					if !(shared && cfg.NoShift) && !noDS {
						choices = append(choices, "shift")
					}
				}
				choices = append(choices, "get", "get")
				if shared && len(cfg.OnlyOps) > 0 {
					var keep []string
					for _, c := range choices {
						for _, o := range cfg.OnlyOps {
							if c == o {
								keep = append(keep, c)
							}
						}
					}
					if len(keep) == 0 {
						keep = []string{"get"}
					}
					choices = keep
				}
				if cfg.Readers {
					choices = append(choices, "getall", "getall", "bykeys", "index", "index", "stream", "stream", "count", "burst")
				}
				switch rapid.SampledFrom(choices).Draw(t, "op") {
				case "rmw":
					if ks.Kind == KindBody {
						op.K = "patch"
						op.Mode = rapid.IntRange(0, 3).Draw(t, "pmode")
						if op.Mode&2 != 0 {
							op.N = int64(rapid.IntRange(0, 20).Draw(t, "pset"))
						} else {
							op.N = genDelta(t, KindI64)
						}
					} else {
						op.K = "inc"
						op.N = genDelta(t, ks.Kind)
					}
					op.Cond, op.CV = genCond(t, ks.Kind)
				case "set":
					op.K = "set"
					if ks.Ver {
						// unique value per Set so that a torn (value, UpdatedBy) pair is recognisable
						setCounter++
						op.N = int64(c*16 + setCounter%16)
						if ks.Kind == KindU8 {
							op.N = int64((c*16 + setCounter%16) % 200)
						}
					} else {
						op.N = int64(rapid.IntRange(0, 20).Draw(t, "setn"))
					}
					m := rapid.IntRange(0, 9).Draw(t, "smode")
					if cfg.ModeBias && m >= 3 {
						m = (m - 3) % 2
					}
					switch {
					case m == 0 && !(shared && cfg.NoSetModes):
						op.Mode = 1
					case m == 1 && !(shared && cfg.NoSetModes):
						op.Mode = 2
					case m == 2 && !(shared && cfg.NoStringSet) && !ks.Ver:
						op.Mode = 3
					}
				case "del":
					op.K = "del"
				case "shift":
					op.K = "shift"
				case "get":
					op.K = "get"
				case "getall":
					op.K, op.Key = "getall", -1
				case "bykeys":
					op.K, op.Key = "bykeys", -1
				case "count":
					op.K, op.Key = "count", -1
				case "burst":
					op.K, op.Key = "burst", -1
					op.N = int64(rapid.SampledFrom([]int{5, 30, 120}).Draw(t, "burstn"))
					op.Mode = rapid.IntRange(0, 1).Draw(t, "burstdel")
					op.CV = int64(j)
				case "index":
					op.K, op.Key = "index", -1
					op.Mode = rapid.IntRange(0, len(indexVariants)-1).Draw(t, "ivar")
				case "stream":
					op.K, op.Key = "stream", -1
					op.Mode = rapid.IntRange(0, 2*len(indexVariants)-1).Draw(t, "svar")
					op.N = int64(rapid.IntRange(0, 10).Draw(t, "sfilter"))
				}
				ops = append(ops, op)
			}
			p.Clients = append(p.Clients, ops)
		}
		p.Plan = genPlan(t, cfg.MaxPlan)
		if cfg.Force != nil {
			cfg.Force(t, &p)
		}
		return p
	}
}
