package lin

import (
	"encoding/json"
	"fmt"
	"os"
	"strconv"
	"strings"
	"sync"
	"sync/atomic"
	"testing"
	"time"

	"pgregory.net/rapid"

	"verifharness/internal/pbt"
	"verifharness/internal/rig"

	hydrapb "github.com/hydraide/hydraide/sdk/go/hydraidego/v3/hydraidepbgo"
)

// C09 — Concurrent writes on a key are linearizable; no lost updates.
//
// A generated program (2–6 client goroutines × 3–12 requests on 1–2 shared keys
// plus private keys) runs against the in-process server; every request's
// call/return instants (one monotonic clock), arguments and response are
// recorded, final Gets close the history, and porcupine decides whether the
// per-key histories are linearizable w.r.t. the sequential model in model.go.

// ---------------------------------------------------------------------------
// one rig per process, shared by the facets

var (
	rigMu      sync.Mutex
	theRig     *rig.Rig
	caseSeq    int64
	rigPoison  bool
	rigStarted int
)

var linPatterns = []rig.Pattern{
	{Pattern: "lin/mem/*", InMemory: true, CloseAfterIdleSec: 600},
	{Pattern: "lin/p1/*", CloseAfterIdleSec: 600, WriteIntervalSec: 1},
	{Pattern: "lin/p0/*", CloseAfterIdleSec: 600, WriteIntervalSec: 0},
}

var cfgDirs = []string{"mem", "p1", "p0"}

func getRig() *rig.Rig {
	rigMu.Lock()
	defer rigMu.Unlock()
	if theRig != nil && rigPoison {
		// a request goroutine is stuck inside the engine: abandon this rig
		old := theRig
		theRig = nil
		rigPoison = false
		old.Stop(3 * time.Second)
	}
	if theRig == nil {
		theRig = rig.New(rig.Options{Patterns: linPatterns})
		installPanicTap()
		rigStarted++
	}
	return theRig
}

func poisonRig() {
	rigMu.Lock()
	rigPoison = true
	rigMu.Unlock()
}

func TestMain(m *testing.M) {
	if os.Getenv(childEnv) != "" {
		os.Exit(childMain())
	}
	code := m.Run()
	rigMu.Lock()
	r := theRig
	poisoned := rigPoison
	rigMu.Unlock()
	if r != nil {
		if poisoned {
			r.Stop(3 * time.Second)
			os.RemoveAll(r.Root)
		} else {
			r.Cleanup()
		}
	}
	pbt.Flush()
	os.Exit(code)
}

func swampFor(cfg int) string {
	n := atomic.AddInt64(&caseSeq, 1)
	return fmt.Sprintf("lin/%s/c%d-%d", cfgDirs[cfg], os.Getpid(), n)
}

// ---------------------------------------------------------------------------
// judging a run

const porcupineTimeout = 10 * time.Second

func opKindsOf(p *Program) map[string]bool {
	m := map[string]bool{}
	for _, c := range p.Clients {
		for _, op := range c {
			m[op.K] = true
			if op.K == "set" && op.Mode != 0 {
				m[[]string{"", "set-insert-only", "set-update-only", "set-string"}[op.Mode]] = true
			}
			if op.Cond != 0 {
				m["conditional-"+op.K] = true
			}
		}
	}
	return m
}

// hangWitness: the watchdog expired. A hang is only claimed when, on three stack
// samples one second apart, the same request goroutines are parked at the same
// place inside a gateway handler while no goroutine of the engine is running —
// nothing is left that could wake them. Anything else is inconclusive.
func hangWitness() (string, bool) {
	what, sig, ok := stuckRequests()
	if !ok {
		return "", false
	}
	for i := 0; i < 2; i++ {
		time.Sleep(time.Second)
		_, sig2, ok2 := stuckRequests()
		if !ok2 || sig2 != sig {
			return "", false
		}
	}
	return what, true
}

func judgeC09(p *Program, res *RunResult) pbt.Outcome {
	out := pbt.Outcome{}
	// --- hang
	if len(res.Hung) > 0 {
		what, ok := hangWitness()
		poisonRig()
		if !ok {
			return pbt.Outcome{Skip: true}
		}
		var ks []string
		for _, ev := range res.Events {
			if !ev.Done {
				ks = append(ks, fmt.Sprintf("client %d: %s on %s", ev.Client, describeOp(p, ev.Op), keyName(p, ev.Op.Key)))
			}
		}
		return pbt.Failf("hang", "%s: %d client(s) never returned (%s) although every other client finished and the perturbation plan was released; a request goroutine is %s on two stack samples",
			cfgNames[p.Config], len(res.Hung), strings.Join(ks, "; "), what)
	}
	// --- (nil,nil) responses and panic records
	for _, ev := range res.Events {
		if ev.Resp.Nil {
			return pbt.Failf("panic", "%s: client %d request %s on key %s returned (nil, nil) — the handler recovered a panic (%d panic log records; last: %s); history of the key: %s",
				cfgNames[p.Config], ev.Client, describeOp(p, ev.Op), keyName(p, ev.Op.Key), res.PanicsBy, firstPanicText(res), describeHistory(p, res.Events, ev.Op.Key))
		}
	}
	if res.PanicsBy > 0 {
		return pbt.Failf("panic", "%s: %d panic record(s) were logged while the program ran: %s", cfgNames[p.Config], res.PanicsBy, firstPanicText(res))
	}
	for _, ev := range res.Events {
		if ev.Resp.Malf != "" {
			return pbt.Failf("malformed", "%s: client %d request %s on key %s: %s", cfgNames[p.Config], ev.Client, describeOp(p, ev.Op), keyName(p, ev.Op.Key), ev.Resp.Malf)
		}
	}
	// --- statuses the request mode can never produce, whatever the interleaving
	for _, ev := range res.Events {
		if ev.Op.K == "set" && ev.Resp.Err == "" {
			st := hydrapb.Status_Code(ev.Resp.Status)
			if (ev.Op.Mode == 1 && st == hydrapb.Status_UPDATED) || (ev.Op.Mode == 2 && st == hydrapb.Status_NEW) {
				return pbt.Failf("impossible-status", "%s: client %d %s on key %s answered %s — an insert-only Set overwrote / an update-only Set created the record; history of the key: %s",
					cfgNames[p.Config], ev.Client, describeOp(p, ev.Op), keyName(p, ev.Op.Key), st, describeHistory(p, res.Events, ev.Op.Key))
			}
		}
	}
	// --- cheap independent invariant: Σ acknowledged increments == final counter
	if f := sumInvariant(p, res.Events); f != "" {
		return pbt.Failf("lost-update", "%s: %s", cfgNames[p.Config], f)
	}
	// --- linearizability
	v := checkLinearizable(p, res.Events, porcupineTimeout)
	if len(v.Illegal) > 0 {
		k := v.Illegal[0]
		return pbt.Failf("nonlinearizable", "%s: history of key %s (%s) is not linearizable: %s",
			cfgNames[p.Config], keyName(p, k), kindNames[p.Keys[k].Kind], describeHistory(p, res.Events, k))
	}
	if len(v.Unknown) > 0 {
		return pbt.Outcome{Skip: true}
	}
	rmw, wo, _ := overlapStats(res.Events)
	out.NonTrivial = rmw
	out.Classes = append(out.Classes, "cfg:"+cfgNames[p.Config])
	if rmw {
		out.Classes = append(out.Classes, "rmw-overlap:"+cfgNames[p.Config])
	}
	if wo {
		out.Classes = append(out.Classes, "write-write-overlap")
	}
	if len(res.Fired) > 0 {
		out.Classes = append(out.Classes, "plan-fired")
	}
	for k := range opKindsOf(p) {
		out.Classes = append(out.Classes, "op:"+k)
	}
	for _, ev := range res.Events {
		if ev.Resp.Err != "" && ev.Op.K == "inc" {
			out.Classes = append(out.Classes, "inc-type-error")
			break
		}
	}
	return out
}

func firstPanicText(res *RunResult) string {
	if len(res.PanicTexts) > 0 {
		s := res.PanicTexts[0]
		if o := panicOrigin(s); o != "" {
			s = "raised in " + o + ": " + s
		}
		if len(s) > 420 {
			s = s[:420] + "…"
		}
		return s
	}
	return lastPanic(res.Recent)
}

func lastPanic(recent []string) string {
	for i := len(recent) - 1; i >= 0; i-- {
		if strings.Contains(strings.ToLower(recent[i]), "panic") {
			s := recent[i]
			if len(s) > 260 {
				s = s[:260] + "…"
			}
			return s
		}
	}
	return "-"
}

// sumInvariant: for every key that only saw increments (Increment* / Patch INC
// without SET) and reads — no Set, Delete, Shift after the setup — the final
// value must equal the initial value plus the sum of the acknowledged deltas.
func sumInvariant(p *Program, evs []Event) string {
	for k, ks := range p.Keys {
		pure := true
		touched := false
		for _, c := range p.Clients {
			for _, op := range c {
				if op.Key != k {
					continue
				}
				switch op.K {
				case "inc":
					touched = true
				case "patch":
					touched = true
					if op.Mode&2 != 0 {
						pure = false
					}
				case "get":
				default:
					pure = false
				}
			}
		}
		if !pure || !touched {
			continue
		}
		var sum int64
		exists := ks.Init
		if ks.Init {
			sum = ks.InitN
		}
		acked := 0
		var final *Event
		for i := range evs {
			ev := evs[i]
			if ev.Op.Key != k || !ev.Done {
				continue
			}
			if ev.Client == clientFinal {
				final = &evs[i]
				continue
			}
			switch ev.Op.K {
			case "inc":
				if ev.Resp.Err == "" && !ev.Resp.Nil && ev.Resp.Inc {
					sum += ev.Op.N
					acked++
					exists = true
				}
			case "patch":
				if ev.Resp.Status == 0 || ev.Resp.Status == 1 { // PATCHED / CREATED
					if ev.Resp.Err == "" && !ev.Resp.Nil {
						sum += ev.Op.N
						acked++
						exists = true
					}
				}
			}
		}
		if final == nil || final.Resp.Nil || final.Resp.Err != "" {
			continue
		}
		if !exists {
			if final.Resp.Exists {
				return fmt.Sprintf("key %s: no increment was acknowledged but the final Get finds %s", keyName(p, k), final.Resp.Val)
			}
			continue
		}
		want := valOfKind(ks.Kind, sum)
		if ks.Kind == KindF64 {
			want = Val{T: TF64, F: float64(sum) * 0.25}
		}
		if !final.Resp.Exists || final.Resp.Val != want {
			got := "absent"
			if final.Resp.Exists {
				got = final.Resp.Val.String()
			}
			return fmt.Sprintf("key %s (%s): initial value + sum of the %d acknowledged increments = %s but the final Get returns %s — an acknowledged update was lost (or applied twice); history: %s",
				keyName(p, k), kindNames[ks.Kind], acked, want, got, describeHistory(p, evs, k))
		}
	}
	return ""
}

func runC09(p Program) pbt.Outcome {
	r := getRig()
	sn := swampFor(p.Config)
	res := RunProgram(r, nil, sn, &p, 30*time.Second)
	out := judgeC09(&p, res)
	if len(res.Hung) == 0 {
		DestroySwamp(r, sn)
	}
	if f := os.Getenv("LIN_DISCOVER"); f != "" && out.Fail != "" {
		// debugging aid: log every failure and keep going (never used by the driver)
		if fh, err := os.OpenFile(f, os.O_APPEND|os.O_CREATE|os.O_WRONLY, 0o644); err == nil {
			js, _ := json.Marshal(p)
			fmt.Fprintf(fh, "[%s] %s\nPROGRAM %s\n", out.Shape, out.Fail, js)
			fh.Close()
		}
		return pbt.Outcome{Skip: true}
	}
	return out
}

// ---------------------------------------------------------------------------
// facets

// witnesses of the recorded findings (KNOWN_FINDINGS.txt). While a finding is
// open the main generator leaves its trigger out — on SHARED keys only; private
// keys (one client) keep the full vocabulary.
const (
	wImmediate = "immediate-write-double-release"  // guard released in SaveFunction and again by the caller, IDs reused
	wCreate    = "create-inflight-tracker-race"    // two treasure objects for one key when several clients create it concurrently
	wModes     = "set-mode-check-outside-guard"    // insert-only / update-only Set decide existence before taking the guard
	wDelAck    = "delete-double-ack"               // two concurrent Deletes of one record both answer DELETED
	wDelRes    = "delete-resurrects-queued-writer" // a writer queued on the guard of a deleted record re-publishes it
	wShift     = "shift-not-atomic"                // ShiftByKeys clones, releases the guard, then deletes
	wTornGet   = "get-sees-record-mid-mutation"    // (C10) Get reads type and value in two steps while a Set replaces the content
)

type openSet struct{ immediate, create, modes, delAck, delRes, shift, torn bool }

func c09Open() openSet {
	return openSet{
		immediate: pbt.Open("C09", wImmediate),
		create:    pbt.Open("C09", wCreate),
		modes:     pbt.Open("C09", wModes),
		delAck:    pbt.Open("C09", wDelAck),
		delRes:    pbt.Open("C09", wDelRes),
		shift:     pbt.Open("C09", wShift),
		torn:      pbt.Open("C10", wTornGet),
	}
}

func c09Cfg(o openSet, note func(string)) GenCfg {
	cfg := GenCfg{Configs: []int{CfgMem, CfgInterval, CfgImmediate}, MaxPlan: 4}
	if o.immediate {
		cfg.SingleWriter = func(c int) bool { return c == CfgImmediate }
		note("immediate-write mode with more than one writer client per shared key (open finding " + wImmediate + ")")
	}
	if o.create {
		// the trigger is a key that does not exist while two clients write it: keep shared
		// keys existent for the whole program
		cfg.InitAll, cfg.NoDelete, cfg.NoShift = true, true, true
		note("shared keys that do not exist while clients write them: all shared keys are pre-set, no Delete/ShiftByKeys on shared keys (open finding " + wCreate + ")")
	}
	if o.modes {
		cfg.NoSetModes = true
		note("insert-only / update-only Set on shared keys (open finding " + wModes + ")")
	}
	if o.delAck || o.delRes {
		cfg.NoDelete = true
		note("Delete on shared keys (open findings " + wDelAck + " / " + wDelRes + ")")
	}
	if o.shift {
		cfg.NoShift = true
		note("ShiftByKeys on shared keys (open finding " + wShift + ")")
	}
	if o.torn {
		cfg.NoStringSet, cfg.NoDelPersist = true, true
		note("type-changing (string) Set on shared keys, Delete/ShiftByKeys on shared keys of persistent swamps (a concurrent Get can see the record mid-mutation: open finding C10/" + wTornGet + ")")
	}
	if x := os.Getenv("LIN_EXCLUDE"); x != "" { // debugging aid
		cfg.NoShift = strings.Contains(x, "shift")
		cfg.NoDelete = strings.Contains(x, "delete")
		cfg.NoSetModes = strings.Contains(x, "modes")
		cfg.NoStringSet = strings.Contains(x, "string")
		cfg.InitAll = strings.Contains(x, "create")
		if strings.Contains(x, "immediate") {
			cfg.Configs = []int{CfgMem, CfgInterval}
		}
	}
	return cfg
}

const c09Rule = "rapid-drawn program: 2–6 client goroutines × 3–12 requests on 1–2 shared keys (+ private keys) of kind int64/uint8/float64/msgpack-body: " +
	"Set (upsert / insert-only / update-only / string), IncrementInt64/Uint8/Float64 ±δ with/without condition, PatchTreasures INC/SET on field n with/without condition and create flag, " +
	"Delete, ShiftByKeys, Get; configuration in-memory / persistent write interval 1 s / immediate-write; 0–4 perturbation actions (gosched, sleep 5µs–3ms, pause-until-site ≤ 20 ms) at 67 instrumented sites; " +
	"oracle: porcupine linearizability of the per-key histories incl. final Gets against the sequential model, no (nil,nil) response, no panic record, no stuck client, no status the request mode can never produce, Σ acknowledged increments = final value; " +
	"non-trivial = two clients had time-overlapping WRITES on one key and at least one of them was a read-modify-write (increment, patch, shift)"

func TestC09Main(t *testing.T) {
	cfg := c09Cfg(c09Open(), func(what string) { pbt.Excluded("C09", "main", what) })
	pbt.Main(t, pbt.Spec[Program]{
		ID: "C09", Facet: "main", Rule: c09Rule,
		Quick: 6400, Thorough: 320000,
		Gen: GenProgram(cfg), Run: runC09,
	})
	pbt.Extra("C09", "vsched_built", VschedBuilt)
}

// --- hammer: N clients × M IncrementInt64(+1) on one key ---------------------

type Hammer struct {
	Config  int `json:"config"`
	Clients int `json:"clients"`
	Per     int `json:"per"`
}

func runHammer(h Hammer) pbt.Outcome {
	r := getRig()
	p := Program{Config: h.Config, Keys: []KeySpec{{Kind: KindI64, Owner: -1}}}
	if pbt.Open("C09", wCreate) {
		// concurrent creation of the counter is the trigger of an open finding: pre-set it to 0
		p.Keys[0].Init = true
	}
	for c := 0; c < h.Clients; c++ {
		var ops []Op
		for i := 0; i < h.Per; i++ {
			ops = append(ops, Op{K: "inc", Key: 0, N: 1})
		}
		p.Clients = append(p.Clients, ops)
	}
	sn := swampFor(h.Config)
	res := RunProgram(r, nil, sn, &p, 60*time.Second)
	if len(res.Hung) > 0 {
		what, ok := hangWitness()
		poisonRig()
		if !ok {
			return pbt.Outcome{Skip: true}
		}
		return pbt.Failf("hang", "%s: %d of %d clients never returned; a request goroutine is %s", cfgNames[h.Config], len(res.Hung), h.Clients, what)
	}
	defer DestroySwamp(r, sn)
	total := h.Clients * h.Per
	acked, nils := 0, 0
	seen := map[int64]int{}
	for _, ev := range res.Events {
		if ev.Client >= clientSetup {
			continue
		}
		if ev.Resp.Nil {
			nils++
			continue
		}
		if ev.Resp.Err != "" || !ev.Resp.Inc {
			return pbt.Failf("unexpected", "increment answered err=%q inc=%v", ev.Resp.Err, ev.Resp.Inc)
		}
		acked++
		seen[ev.Resp.Val.I]++
	}
	var final Resp
	for _, ev := range res.Events {
		if ev.Client == clientFinal {
			final = ev.Resp
		}
	}
	if nils > 0 || res.PanicsBy > 0 {
		return pbt.Failf("panic", "%s: %d×%d IncrementInt64(+1) on one key: %d requests returned (nil, nil), %d panic records (%s); acknowledged %d, final value %s",
			cfgNames[h.Config], h.Clients, h.Per, nils, res.PanicsBy, firstPanicText(res), acked, final.Val)
	}
	if !final.Exists || final.Val != (Val{T: TI64, I: int64(acked)}) {
		return pbt.Failf("lost-update", "%s: %d×%d IncrementInt64(+1) on one key: %d acknowledged but the final value is %s", cfgNames[h.Config], h.Clients, h.Per, acked, final.Val)
	}
	for v, n := range seen {
		if n > 1 || v < 1 || v > int64(total) {
			return pbt.Failf("lost-update", "%s: %d×%d IncrementInt64(+1): the new value %d was returned to %d requests (each acknowledged +1 must see its own value)", cfgNames[h.Config], h.Clients, h.Per, v, n)
		}
	}
	rmw, _, _ := overlapStats(res.Events)
	return pbt.Outcome{NonTrivial: rmw, Classes: []string{"cfg:" + cfgNames[h.Config]}}
}

func genHammer(cfgs []int) func(t *rapid.T) Hammer {
	return func(t *rapid.T) Hammer {
		return Hammer{Config: rapid.SampledFrom(cfgs).Draw(t, "config"), Clients: rapid.IntRange(2, 8).Draw(t, "clients"), Per: rapid.SampledFrom([]int{50, 150, 300}).Draw(t, "per")}
	}
}

const hammerRule = "N (2–8) clients × M (50/150/300) IncrementInt64(+1) on ONE key; oracle: no (nil,nil) response, no panic record, final value = number of acknowledged increments, " +
	"every acknowledged increment returned a distinct value in 1..N·M; non-trivial = increments of different clients overlapped in time"

func TestC09Hammer(t *testing.T) {
	cfgs := []int{CfgMem, CfgInterval, CfgImmediate}
	if pbt.Open("C09", wImmediate) {
		cfgs = []int{CfgMem, CfgInterval}
		pbt.Excluded("C09", "hammer", "immediate-write mode (open finding "+wImmediate+")")
	}
	if pbt.Open("C09", wCreate) {
		pbt.Excluded("C09", "hammer", "counter created by the racing clients themselves: it is pre-set to 0 (open finding "+wCreate+")")
	}
	pbt.Main(t, pbt.Spec[Hammer]{
		ID: "C09", Facet: "hammer", Rule: hammerRule,
		Quick: 8, Thorough: 200,
		Gen: genHammer(cfgs), Run: runHammer,
	})
}

// --- witnesses of the recorded findings -------------------------------------------

var witnessShapes = []string{"nonlinearizable", "lost-update", "impossible-status"}

func TestC09WitnessImmediateWrite(t *testing.T) {
	pbt.Witness(t, pbt.Spec[Hammer]{
		ID: "C09", Facet: "witness-immediate-hammer", Rule: hammerRule + "; immediate-write mode forced",
		Quick: 6, Thorough: 60,
		Gen: genHammer([]int{CfgImmediate}), Run: runHammer,
	}, wImmediate, "panic", "lost-update", "hang")
}

func TestC09WitnessImmediateWritePrograms(t *testing.T) {
	o := c09Open()
	o.immediate = false
	cfg := c09Cfg(o, func(string) {})
	cfg.Configs = []int{CfgImmediate}
	pbt.Witness(t, pbt.Spec[Program]{
		ID: "C09", Facet: "witness-immediate-programs", Rule: "main generator with immediate-write mode forced and several writer clients per shared key",
		Quick: 150, Thorough: 3000,
		Gen: GenProgram(cfg), Run: runC09,
	}, wImmediate, "panic", "lost-update", "nonlinearizable", "hang")
}

// concurrent creation of a key: no shared key exists at the start, only creating
// writers (Set upsert, Increment*, Patch with/without create) and Gets, and a
// pause between the two look-ups of CreateTreasure.
func TestC09WitnessCreateRace(t *testing.T) {
	cfg := GenCfg{Configs: []int{CfgMem, CfgInterval, CfgImmediate}, MaxPlan: 3, NeverInit: true,
		NoShift: true, NoDelete: true, NoSetModes: true, NoStringSet: true,
		Force: func(t *rapid.T, p *Program) {
			switch rapid.IntRange(0, 2).Draw(t, "forced-plan") {
			case 0:
				p.Plan = append(p.Plan, PlanAction{Site: "swamp:CreateTreasure:Load:11fb0d", Hit: rapid.IntRange(1, 3).Draw(t, "fhit"), Kind: "pause", Until: "site:swamp:SaveFunction:Delete:783c17", MaxWaitMs: 5})
			case 1:
				p.Plan = append(p.Plan, PlanAction{Site: "swamp_patch:PatchFields:Delete:240e62", Hit: 0, Kind: "gosched"},
					PlanAction{Site: "swamp:SaveFunction:Add:f5250f", Hit: 1, Kind: "sleep", SleepUs: 1000})
			}
		}}
	pbt.Witness(t, pbt.Spec[Program]{
		ID: "C09", Facet: "witness-create-race", Rule: "no shared key exists at the start; only Set(upsert)/Increment/Patch/Get on shared keys; forced pause between CreateTreasure's beacon look-up and tracker look-up",
		Quick: 400, Thorough: 6000,
		Gen: GenProgram(cfg), Run: runC09,
	}, wCreate, witnessShapes...)
}

func TestC09WitnessSetModes(t *testing.T) {
	cfg := GenCfg{Configs: []int{CfgMem, CfgInterval, CfgImmediate}, MaxPlan: 3, NeverInit: true, ModeBias: true,
		NoShift: true, NoDelete: true, NoStringSet: true, OnlyOps: []string{"set", "get"}}
	pbt.Witness(t, pbt.Spec[Program]{
		ID: "C09", Facet: "witness-set-modes", Rule: "no shared key exists at the start; shared keys see only Set (upsert / insert-only / update-only, modes frequent) and Get",
		Quick: 300, Thorough: 5000,
		Gen: GenProgram(cfg), Run: runC09,
	}, wModes, witnessShapes...)
}

func TestC09WitnessDeleteDoubleAck(t *testing.T) {
	cfg := GenCfg{Configs: []int{CfgMem, CfgInterval, CfgImmediate}, MaxPlan: 3, InitAll: true, OnlyOps: []string{"del", "get"}}
	pbt.Witness(t, pbt.Spec[Program]{
		ID: "C09", Facet: "witness-delete-double-ack", Rule: "every shared key is pre-set once; shared keys see only Delete and Get (a second DELETED acknowledgement is the only possible anomaly)",
		Quick: 300, Thorough: 5000,
		Gen: GenProgram(cfg), Run: runC09,
	}, wDelAck, witnessShapes...)
}

func TestC09WitnessDeleteResurrect(t *testing.T) {
	cfg := GenCfg{Configs: []int{CfgMem, CfgInterval, CfgImmediate}, MaxPlan: 3, InitAll: true, NoSetModes: true, NoStringSet: true, OnlyOps: []string{"rmw", "del", "get"}}
	pbt.Witness(t, pbt.Spec[Program]{
		ID: "C09", Facet: "witness-delete-resurrect", Rule: "every shared key is pre-set; shared keys see Increment/Patch, Delete and Get",
		Quick: 300, Thorough: 5000,
		Gen: GenProgram(cfg), Run: runC09,
	}, wDelRes, witnessShapes...)
}

func TestC09WitnessShift(t *testing.T) {
	cfg := GenCfg{Configs: []int{CfgMem, CfgInterval, CfgImmediate}, MaxPlan: 3, InitAll: true, NoSetModes: true, NoStringSet: true, OnlyOps: []string{"rmw", "set", "shift", "get"}}
	pbt.Witness(t, pbt.Spec[Program]{
		ID: "C09", Facet: "witness-shift", Rule: "every shared key is pre-set; shared keys see Increment/Patch, Set(upsert), ShiftByKeys and Get",
		Quick: 300, Thorough: 5000,
		Gen: GenProgram(cfg), Run: runC09,
	}, wShift, witnessShapes...)
}

// TestC09Sites: the fixed site list must match the instrumented build (a site
// that is never passed would make its plan actions silently inert).
func TestC09Sites(t *testing.T) {
	if !VschedBuilt {
		t.Skip("built without the vsched overlay")
	}
	r := getRig()
	hit := map[string]int{}
	for cfgI := 0; cfgI < 3; cfgI++ {
		p := Program{Config: cfgI, Keys: []KeySpec{{Kind: KindI64, Owner: -1}, {Kind: KindBody, Owner: -1}, {Kind: KindU8, Owner: -1}, {Kind: KindF64, Owner: -1}}}
		for c := 0; c < 3; c++ {
			p.Clients = append(p.Clients, []Op{
				{K: "inc", Key: 0, N: 1}, {K: "patch", Key: 1, N: 1, Mode: 1}, {K: "inc", Key: 2, N: 1}, {K: "inc", Key: 3, N: 1}, {K: "set", Key: 0, N: 3}, {K: "set", Key: 0, N: 4, Mode: 2},
				{K: "get", Key: 0}, {K: "getall", Key: -1}, {K: "count", Key: -1}, {K: "index", Key: -1}, {K: "patch", Key: 1, N: 1, Cond: 5, CV: -100}, {K: "del", Key: 0}, {K: "inc", Key: 0, N: 1}, {K: "shift", Key: 0},
			})
		}
		// a plan must be active for hits to be counted
		p.Plan = []PlanAction{{Site: "none", Kind: "gosched"}}
		sn := swampFor(cfgI)
		res := RunProgram(r, nil, sn, &p, 30*time.Second)
		for s, n := range res.Hits {
			hit[s] += n
		}
		DestroySwamp(r, sn)
	}
	var missing []string
	for _, s := range planSites {
		if hit[s] == 0 {
			missing = append(missing, s)
		}
	}
	pbt.Extra("C09", "plan_sites", len(planSites))
	pbt.Extra("C09", "plan_sites_never_hit_in_probe", missing)
	// Site names are hashes of the instrumented statements: an edit of such a statement in the tree under
	// test renames its site. That only weakens the perturbation (a plan action on a vanished site is a
	// no-op); it is reported in the evidence, never as a failure of the run.
	if len(missing) > 6 {
		pbt.Note("C09", "%d of %d plan sites were never passed by the probe program: %v", len(missing), len(planSites), missing)
	}
}

// TestC09Probe is a debugging aid (skipped unless LIN_PROBE names a JSON file
// holding a Program): it runs that program LIN_PROBE_N times and prints the
// distinct failures with their frequency.
func TestC09Probe(t *testing.T) {
	f := os.Getenv("LIN_PROBE")
	if f == "" {
		t.Skip("LIN_PROBE not set")
	}
	b, err := os.ReadFile(f)
	if err != nil {
		t.Fatal(err)
	}
	var p Program
	if err := json.Unmarshal(b, &p); err != nil {
		t.Fatal(err)
	}
	n, _ := strconv.Atoi(os.Getenv("LIN_PROBE_N"))
	if n == 0 {
		n = 200
	}
	fails := map[string]int{}
	first := map[string]string{}
	for i := 0; i < n; i++ {
		o := runC09(p)
		if o.Fail != "" {
			fails[o.Shape]++
			if first[o.Shape] == "" {
				first[o.Shape] = o.Fail
			}
		}
	}
	for s, c := range fails {
		t.Logf("%d/%d [%s] %s", c, n, s, first[s])
	}
	if len(fails) == 0 {
		t.Logf("0/%d failures", n)
	}
}
