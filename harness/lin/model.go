package lin

import (
	"fmt"
	"time"

	"github.com/anishathalye/porcupine"
	hydrapb "github.com/hydraide/hydraide/sdk/go/hydraidego/v3/hydraidepbgo"
)

// Sequential per-key specification of the ops the programs issue, written from
// proto/hydraide.proto (status codes, "true + false = insert only" …,
// IncrementXxxResponse "resulting value … or the original value if condition
// failed", PatchResult status codes, ShiftByKeys "clone and delete in a single
// atomic operation").
//
// Where the documentation leaves the answer open the model accepts every
// documented alternative: a Set that overwrites an existing key may answer
// UPDATED or NOTHING_CHANGED (the latter is documented for "same value"; the
// engine also reports UPDATED for a same-value write, which C06 judges).

// kstate is the state of one key.
type kstate struct {
	Exists bool
	V      Val
}

type linIn struct {
	Op   Op
	Kind int // kind of the key
}

func condHolds(c int, cur, ref float64) bool {
	switch c {
	case 0:
		return true
	case 1:
		return cur == ref
	case 2:
		return cur != ref
	case 3:
		return cur > ref
	case 4:
		return cur >= ref
	case 5:
		return cur < ref
	default:
		return cur <= ref
	}
}

func setValue(in linIn) Val {
	if in.Op.Mode == 3 {
		return Val{T: TStr, S: fmt.Sprintf("s%d", in.Op.N)}
	}
	return valOfKind(in.Kind, in.Op.N)
}

// step is the sequential specification. ok=false: this response is impossible in state st.
func step(st kstate, in linIn, out Resp) (bool, kstate) {
	if out.Nil || out.Malf != "" {
		return false, st // judged separately, never legal
	}
	op := in.Op
	switch op.K {
	case "get":
		if out.Err != "" {
			return false, st
		}
		if out.Exists != st.Exists {
			return false, st
		}
		return !st.Exists || out.Val == st.V, st
	case "set":
		if out.Err != "" {
			return false, st
		}
		nv := setValue(in)
		switch op.Mode {
		case 1: // insert only
			if st.Exists {
				return out.Status == int(hydrapb.Status_NOTHING_CHANGED), st
			}
			return out.Status == int(hydrapb.Status_NEW), kstate{true, nv}
		case 2: // update only
			if !st.Exists {
				return out.Status == int(hydrapb.Status_NOT_FOUND), st
			}
			return out.Status == int(hydrapb.Status_UPDATED) || out.Status == int(hydrapb.Status_NOTHING_CHANGED), kstate{true, nv}
		default:
			if !st.Exists {
				return out.Status == int(hydrapb.Status_NEW), kstate{true, nv}
			}
			return out.Status == int(hydrapb.Status_UPDATED) || out.Status == int(hydrapb.Status_NOTHING_CHANGED), kstate{true, nv}
		}
	case "del":
		if out.Err != "" {
			return false, st
		}
		if st.Exists {
			return out.Status == int(hydrapb.Status_DELETED), kstate{}
		}
		return out.Status == int(hydrapb.Status_NOT_FOUND), st
	case "shift":
		if out.Err != "" {
			return false, st
		}
		if st.Exists {
			return out.Exists && out.Val == st.V, kstate{}
		}
		return !out.Exists, st
	case "inc":
		want := kindT(in.Kind)
		if st.Exists && st.V.T != want {
			// "the value of the key is not an integer / float" -> InvalidArgument
			return out.Err == "InvalidArgument", st
		}
		if out.Err != "" {
			return false, st
		}
		var cur, ref, nw float64
		var curV Val
		if st.Exists {
			curV = st.V
		} else {
			curV = Val{T: want}
		}
		if want == TF64 {
			cur, ref = curV.F, float64(op.CV)*0.25
			nw = cur + float64(op.N)*0.25
		} else if want == TU8 {
			cur, ref = float64(curV.I), float64(uint8(op.CV))
			nw = float64(uint8(curV.I) + uint8(op.N))
		} else {
			cur, ref = float64(curV.I), float64(op.CV)
			nw = float64(curV.I + op.N)
		}
		if !condHolds(op.Cond, cur, ref) {
			// not applied: original value, IsIncremented=false, state unchanged
			return !out.Inc && out.Val == curV, st
		}
		nv := Val{T: want}
		if want == TF64 {
			nv.F = nw
		} else {
			nv.I = int64(nw)
		}
		return out.Inc && out.Val == nv, kstate{true, nv}
	case "patch":
		if out.Err != "" {
			return false, st
		}
		create := op.Mode&1 != 0
		isSet := op.Mode&2 != 0
		if !st.Exists {
			if !create {
				return out.Status == int(hydrapb.PatchResult_KEY_NOT_FOUND), st
			}
			// seeded with an empty map: a comparator condition on the missing field "n" is not met
			if op.Cond != 0 {
				return out.Status == int(hydrapb.PatchResult_CONDITION_NOT_MET), st
			}
			// INC on a missing field creates it with the delta; SET stores the value
			return out.Status == int(hydrapb.PatchResult_CREATED), kstate{true, Val{T: TBody, I: op.N}}
		}
		if st.V.T != TBody {
			return out.Status == int(hydrapb.PatchResult_TYPE_MISMATCH), st
		}
		if !condHolds(op.Cond, float64(st.V.I), float64(op.CV)) {
			return out.Status == int(hydrapb.PatchResult_CONDITION_NOT_MET), st
		}
		n := st.V.I + op.N
		if isSet {
			n = op.N
		}
		return out.Status == int(hydrapb.PatchResult_PATCHED), kstate{true, Val{T: TBody, I: n}}
	}
	return false, st
}

var linModel = porcupine.Model{
	Init: func() interface{} { return kstate{} },
	Step: func(state, input, output interface{}) (bool, interface{}) {
		ok, ns := step(state.(kstate), input.(linIn), output.(Resp))
		return ok, ns
	},
	Equal: func(a, b interface{}) bool { return a.(kstate) == b.(kstate) },
}

type linVerdict struct {
	Illegal  []int // keys whose history is not linearizable
	Unknown  []int // keys whose check timed out
	Checked  int
	MaxOps   int
	Duration time.Duration
}

// checkLinearizable checks the completed events key by key (a history over
// independent keys is linearizable iff every per-key sub-history is).
func checkLinearizable(p *Program, evs []Event, timeout time.Duration) linVerdict {
	var v linVerdict
	start := time.Now()
	byKey := map[int][]porcupine.Operation{}
	for _, ev := range evs {
		if !ev.Done || ev.Op.Key < 0 || ev.Op.Key >= len(p.Keys) {
			continue
		}
		switch ev.Op.K {
		case "set", "inc", "patch", "del", "shift", "get":
		default:
			continue
		}
		cid := ev.Client
		if cid >= clientSetup {
			cid = len(p.Clients) + (cid - clientSetup)
		}
		byKey[ev.Op.Key] = append(byKey[ev.Op.Key], porcupine.Operation{
			ClientId: cid, Input: linIn{Op: ev.Op, Kind: p.Keys[ev.Op.Key].Kind}, Call: ev.Call, Output: ev.Resp, Return: ev.Ret,
		})
	}
	for k := 0; k < len(p.Keys); k++ {
		ops := byKey[k]
		if len(ops) == 0 {
			continue
		}
		v.Checked++
		if len(ops) > v.MaxOps {
			v.MaxOps = len(ops)
		}
		switch porcupine.CheckOperationsTimeout(linModel, ops, timeout) {
		case porcupine.Illegal:
			v.Illegal = append(v.Illegal, k)
		case porcupine.Unknown:
			v.Unknown = append(v.Unknown, k)
		}
	}
	v.Duration = time.Since(start)
	return v
}
