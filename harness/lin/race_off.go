//go:build !race

package lin

const raceBuilt = false
