//go:build verifvsched

package claims

import (
	"fmt"
	"os"
	"sync"
	"testing"
	"time"

	"github.com/hydraide/hydraide/app/verifshim/vsched"
	hydrapb "github.com/hydraide/hydraide/sdk/go/hydraidego/v3/hydraidepbgo"

	"verifharness/internal/rig"
)


func mkRecs(n int, now int64) []seedRec {
	var recs []seedRec
	for i := 0; i < n; i++ {
		recs = append(recs, seedRec{Key: fmt.Sprintf("k%03d", i), Body: Body{Status: "ready", Owner: "none", N: int64(i)},
			Exp: now - int64(3600-i)*1e9, Created: now - int64(7200-i)*1e9})
	}
	recs = append(recs, seedRec{Key: "zz-anchor", Body: Body{Status: "anchor", Owner: "anchor", N: -1}})
	return recs
}

func withTimeout(d time.Duration, fs ...func()) bool {
	var wg sync.WaitGroup
	for _, f := range fs {
		wg.Add(1)
		go func(f func()) { defer wg.Done(); f() }(f)
	}
	done := make(chan struct{})
	go func() { wg.Wait(); close(done) }()
	select {
	case <-done:
		return true
	case <-time.After(d):
		return false
	}
}

// Probe 1: Delete (guard -> beacon mu) vs ShiftExpired (beacon mu -> guard).
func TestProbeDeadlock(t *testing.T) {
	e := getEnv()
	sn := freshSwamp("pd", false)
	now := time.Now().UnixNano()
	if err := e.seed(sn, mkRecs(8, now)); err != nil {
		t.Fatal(err)
	}
	vsched.Activate([]vsched.Action{
		{Site: "beacon:ShiftExpired:3:StartTreasureGuard", Hit: 1, Kind: "pause", Until: "site:beacon:Delete:2:Lock", MaxWaitMs: 2000},
		{Site: "swamp:deleteHandler:1:StartTreasureGuard", Hit: 1, Kind: "sleep", SleepUs: 1},
	}, true)
	ok := withTimeout(5*time.Second,
		func() {
			r, err := e.r.G.ShiftExpiredTreasures(e.ctx, &hydrapb.ShiftExpiredTreasuresRequest{IslandID: rig.Island(sn), SwampName: sn, HowMany: 0})
			t.Logf("shift: %d err=%v", len(r.GetTreasures()), err)
		},
		func() {
			time.Sleep(20 * time.Millisecond)
			r, err := e.r.G.Delete(e.ctx, &hydrapb.DeleteRequest{Swamps: []*hydrapb.DeleteRequest_SwampKeys{{IslandID: rig.Island(sn), SwampName: sn, Keys: []string{"k005"}}}})
			t.Logf("delete: %v err=%v", r, err)
		})
	rep := vsched.Deactivate()
	t.Logf("fired %v", rep.Fired)
	if !ok {
		t.Logf("DEADLOCK: goroutines in guard wait: %d, in beacon Delete: %d", goroutinesIn("StartTreasureGuard", "sync.Cond.Wait"), goroutinesIn("beacon.(*beacon).Delete", ""))
	}
}

// Probe 1b: how often does the inversion bite without any perturbation?
func TestProbeDeadlockFree(t *testing.T) {
	e := getEnv()
	for it := 0; it < 300; it++ {
		sn := freshSwamp("pf", it%2 == 0)
		now := time.Now().UnixNano()
		if err := e.seed(sn, mkRecs(40, now)); err != nil {
			t.Fatal(err)
		}
		e.r.G.GetByIndex(e.ctx, &hydrapb.GetByIndexRequest{IslandID: rig.Island(sn), SwampName: sn, IndexType: hydrapb.IndexType_EXPIRATION_TIME, Limit: 1})
		shift := func() {
			for i := 0; i < 6; i++ {
				e.r.G.ShiftExpiredTreasures(e.ctx, &hydrapb.ShiftExpiredTreasuresRequest{IslandID: rig.Island(sn), SwampName: sn, HowMany: 5})
			}
		}
		del := func(off int) func() {
			return func() {
				for i := 0; i < 15; i++ {
					k := fmt.Sprintf("k%03d", (off+i*2)%40)
					e.r.G.Delete(e.ctx, &hydrapb.DeleteRequest{Swamps: []*hydrapb.DeleteRequest_SwampKeys{{IslandID: rig.Island(sn), SwampName: sn, Keys: []string{k}}}})
				}
			}
		}
		if !withTimeout(5*time.Second, shift, shift, del(0), del(1)) {
			t.Logf("iteration %d: DEADLOCK without perturbation (guard waiters %d, beacon.Delete %d)", it, goroutinesIn("StartTreasureGuard", "sync.Cond.Wait"), goroutinesIn("beacon.(*beacon).Delete", ""))
			os.Exit(3)
		}
		e.destroy(sn)
	}
	t.Logf("300 iterations without deadlock")
}

func shiftMatch(e *env, sn string, idx hydrapb.IndexType_Type, f *Filt, how int32) (*hydrapb.ShiftMatchingTreasuresResponse, error) {
	return e.r.G.ShiftMatchingTreasures(e.ctx, &hydrapb.ShiftMatchingTreasuresRequest{IslandID: rig.Island(sn), SwampName: sn, IndexType: idx, HowMany: how, Filters: f.proto()})
}

func patchKeys(e *env, sn string, keys []string, ops []POp, c *PCond, cap *hydrapb.Cap) (*hydrapb.PatchTreasuresResponse, error) {
	var ps []*hydrapb.TreasurePatch
	for _, k := range keys {
		ps = append(ps, &hydrapb.TreasurePatch{Key: k, Ops: opsProto(ops), Condition: c.proto()})
	}
	return e.r.G.PatchTreasures(e.ctx, &hydrapb.PatchTreasuresRequest{IslandID: rig.Island(sn), SwampName: sn, Patches: ps, Cap: cap})
}

// Probe 2: stale candidate key set (indexable filter) in shift-matching.
func TestProbeStaleCandidate(t *testing.T) {
	e := getEnv()
	for _, indexable := range []bool{true, false} {
		sn := freshSwamp("ps", false)
		now := time.Now().UnixNano()
		if err := e.seed(sn, mkRecs(6, now)); err != nil {
			t.Fatal(err)
		}
		f := &Filt{Legs: []Leg{{Field: "status", Op: "eq", S: "ready"}}}
		if !indexable {
			f = &Filt{Legs: []Leg{{Field: "status", Op: "ne", S: "done"}, {Field: "n", Op: "ge", I: 0}}}
		}
		// warm-up: build key index + buckets
		shiftMatch(e, sn, hydrapb.IndexType_KEY, &Filt{Legs: []Leg{{Field: "status", Op: "eq", S: "nope"}}}, 1)
		vsched.Activate([]vsched.Action{
			{Site: "beacon:ShiftMatching:2:Lock", Hit: 1, Kind: "pause", Until: "patched", MaxWaitMs: 3000},
		}, false)
		var got []string
		ok := withTimeout(8*time.Second, func() {
			r, err := shiftMatch(e, sn, hydrapb.IndexType_KEY, f, 0)
			if err != nil {
				t.Errorf("shift: %v", err)
			}
			for _, tr := range r.GetTreasures() {
				b, _ := decodeWrapped(tr.BytesVal)
				got = append(got, tr.Key+":"+b.Status)
			}
		}, func() {
			time.Sleep(30 * time.Millisecond)
			r, err := patchKeys(e, sn, []string{"k002"}, []POp{{Kind: "set-status", S: "done"}}, nil, nil)
			t.Logf("patch: %v %v", r, err)
			vsched.Signal("patched")
		})
		rep := vsched.Deactivate()
		t.Logf("indexable=%v ok=%v fired=%v returned=%v", indexable, ok, rep.Fired, got)
		e.destroy(sn)
	}
}

// Probe 3: PatchExpired re-saves a record deleted between selection and patch.
func TestProbeResurrect(t *testing.T) {
	e := getEnv()
	for _, reload := range []bool{false, true} {
		sn := freshSwamp("pr", false)
		now := time.Now().UnixNano()
		if err := e.seed(sn, mkRecs(4, now)); err != nil {
			t.Fatal(err)
		}
		if reload {
			e.r.CloseSwamp(sn)
		}
		// warm-up expiration index
		e.r.G.GetByIndex(e.ctx, &hydrapb.GetByIndexRequest{IslandID: rig.Island(sn), SwampName: sn, IndexType: hydrapb.IndexType_EXPIRATION_TIME, Limit: 1})
		vsched.Activate([]vsched.Action{
			{Site: "swamp_patch_expired:applyPatchExpiredOne:1:StartTreasureGuard", Hit: 2, Kind: "pause", Until: "deleted", MaxWaitMs: 3000},
		}, false)
		var res []string
		ok := withTimeout(8*time.Second, func() {
			r, err := e.r.G.PatchExpiredTreasures(e.ctx, &hydrapb.PatchExpiredTreasuresRequest{IslandID: rig.Island(sn), SwampName: sn, HowMany: 0,
				Ops: opsProto([]POp{{Kind: "set-owner", S: "w1"}}), Meta: &hydrapb.PatchMeta{SetExpiredAt: nanosToTS(now + 3600e9)}})
			if err != nil {
				t.Errorf("pe: %v", err)
			}
			for _, p := range r.GetPatched() {
				res = append(res, fmt.Sprintf("%s:%v", p.Key, p.Status))
			}
		}, func() {
			time.Sleep(30 * time.Millisecond)
			r, err := e.r.G.Delete(e.ctx, &hydrapb.DeleteRequest{Swamps: []*hydrapb.DeleteRequest_SwampKeys{{IslandID: rig.Island(sn), SwampName: sn, Keys: []string{"k001"}}}})
			t.Logf("delete: %v %v", r.GetResponses()[0].GetKeyStatuses(), err)
			vsched.Signal("deleted")
		})
		rep := vsched.Deactivate()
		all, err := e.getAll(sn)
		_, present := all["k001"]
		t.Logf("reload=%v ok=%v fired=%v patched=%v; after: k001 present=%v (err %v) n=%d", reload, ok, rep.Fired, res, present, err, len(all))
		e.destroy(sn)
	}
}

func statusCap(max int32, st string) *hydrapb.Cap {
	return &hydrapb.Cap{MaxMatching: max, Filter: (&Filt{Legs: []Leg{{Field: "status", Op: "eq", S: st}}}).proto()}
}

// Probe 5: capPreCount counts before LockCapMu.
func TestProbeCap(t *testing.T) {
	e := getEnv()
	sn := freshSwamp("pc", false)
	now := time.Now().UnixNano()
	if err := e.seed(sn, mkRecs(8, now)); err != nil {
		t.Fatal(err)
	}
	vsched.Activate([]vsched.Action{
		{Site: "swamp:LockCapMu:1:Lock", Hit: 1, Kind: "pause", Until: "site:swamp:UnlockCapMu:1:Unlock", MaxWaitMs: 3000},
	}, false)
	cap := statusCap(2, "leased")
	ok := withTimeout(8*time.Second, func() {
		r, err := patchKeys(e, sn, []string{"k000", "k001"}, []POp{{Kind: "set-status", S: "leased"}}, nil, cap)
		t.Logf("A: %v %v", r, err)
	}, func() {
		time.Sleep(30 * time.Millisecond)
		r, err := patchKeys(e, sn, []string{"k002", "k003"}, []POp{{Kind: "set-status", S: "leased"}}, nil, cap)
		t.Logf("B: %v %v", r, err)
	})
	rep := vsched.Deactivate()
	all, _ := e.getAll(sn)
	n := 0
	for _, tr := range all {
		b, _ := decodeWrapped(tr.BytesVal)
		if b.Status == "leased" {
			n++
		}
	}
	t.Logf("ok=%v fired=%v matching=%d (cap 2)", ok, rep.Fired, n)
	e.destroy(sn)
}

// Probe 4: ShiftExpired and ShiftMatching(KEY) walk different beacons: double claim.
func TestProbeCrossIndex(t *testing.T) {
	e := getEnv()
	sn := freshSwamp("px", false)
	now := time.Now().UnixNano()
	if err := e.seed(sn, mkRecs(5, now)); err != nil {
		t.Fatal(err)
	}
	e.r.G.GetByIndex(e.ctx, &hydrapb.GetByIndexRequest{IslandID: rig.Island(sn), SwampName: sn, IndexType: hydrapb.IndexType_EXPIRATION_TIME, Limit: 1})
	e.r.G.GetByIndex(e.ctx, &hydrapb.GetByIndexRequest{IslandID: rig.Island(sn), SwampName: sn, IndexType: hydrapb.IndexType_KEY, Limit: 1})
	vsched.Activate([]vsched.Action{
		{Site: "swamp:deleteHandler:1:StartTreasureGuard", Hit: 1, Kind: "pause", Until: "b-done", MaxWaitMs: 3000},
	}, false)
	var a, b []string
	ok := withTimeout(8*time.Second, func() {
		r, _ := e.r.G.ShiftExpiredTreasures(e.ctx, &hydrapb.ShiftExpiredTreasuresRequest{IslandID: rig.Island(sn), SwampName: sn, HowMany: 3})
		for _, tr := range r.GetTreasures() {
			a = append(a, tr.Key)
		}
	}, func() {
		time.Sleep(30 * time.Millisecond)
		r, _ := shiftMatch(e, sn, hydrapb.IndexType_KEY, &Filt{Legs: []Leg{{Field: "n", Op: "ge", I: 0}}}, 3)
		for _, tr := range r.GetTreasures() {
			b = append(b, tr.Key)
		}
		vsched.Signal("b-done")
	})
	rep := vsched.Deactivate()
	t.Logf("ok=%v fired=%v shiftExpired=%v shiftMatching(KEY)=%v", ok, rep.Fired, a, b)
	e.destroy(sn)
}

// Probe 6: sequential — an indexed leg that matches nothing makes ShiftMatching match everything.
func TestProbeEmptyCandidates(t *testing.T) {
	e := getEnv()
	sn := freshSwamp("pe", false)
	now := time.Now().UnixNano()
	if err := e.seed(sn, mkRecs(4, now)); err != nil {
		t.Fatal(err)
	}
	r, err := shiftMatch(e, sn, hydrapb.IndexType_KEY, &Filt{Legs: []Leg{{Field: "status", Op: "eq", S: "leased"}}}, 2)
	var got []string
	for _, tr := range r.GetTreasures() {
		b, _ := decodeWrapped(tr.BytesVal)
		got = append(got, tr.Key+":"+b.Status)
	}
	t.Logf("ShiftMatching(status==leased, HowMany=2) on 4 records with status ready + 1 anchor returned %v err=%v", got, err)
	all, _ := e.getAll(sn)
	t.Logf("left: %d", len(all))
	e.destroy(sn)
}

// Probe 7: the Cap pre-count of PatchExpired / ShiftMatching only sees records that are in the walked index.
func TestProbeCapIndexOnly(t *testing.T) {
	e := getEnv()
	sn := freshSwamp("pi", false)
	now := time.Now().UnixNano()
	recs := []seedRec{
		{Key: "k000", Body: Body{Status: "leased", Owner: "none", N: 0}},                                        // matches the cap filter, has no ExpiredAt
		{Key: "k001", Body: Body{Status: "ready", Owner: "none", N: 1}, Exp: now - 100e9, Created: now - 9000e9}, // expired
		{Key: "zz", Body: anchorBody},
	}
	if err := e.seed(sn, recs); err != nil {
		t.Fatal(err)
	}
	r, err := e.r.G.PatchExpiredTreasures(e.ctx, &hydrapb.PatchExpiredTreasuresRequest{IslandID: rig.Island(sn), SwampName: sn, HowMany: 0,
		Ops: opsProto([]POp{{Kind: "set-status", S: "leased"}}), Cap: statusCap(1, "leased")})
	t.Logf("PatchExpired(Cap leased<=1) with 1 matching record already: patched=%v capReached=%v err=%v", r.GetPatched(), r.GetCapReached(), err)
	all, _ := e.getAll(sn)
	n := 0
	for _, tr := range all {
		b, _ := decodeWrapped(tr.BytesVal)
		if b.Status == "leased" {
			n++
		}
	}
	t.Logf("matching now: %d (cap 1)", n)
	e.destroy(sn)
}
