package claims

import (
	"fmt"
	"sort"
	"strings"
)

// Per-key history model for C11.
//
// Every response that mentions a key becomes one event on that key with the
// call interval [Call, Ret] of the RPC that produced it. The sequential
// specification below is the documented per-record behaviour (operations on one
// record are atomic under the per-key guard; Shift* "atomically selects,
// removes and returns"; PatchExpired "atomically selects ... and applies"). A
// key's history is accepted iff some total order of its events respects real
// time (A before B whenever A.Ret < B.Call), satisfies every event's
// precondition on the model state and ends in the observed final state. This
// one check subsumes: no record handed to two shift callers, none handed out
// and also acknowledged as deleted, every returned record satisfied the
// request's criteria when it was claimed, the returned bodies are the ops
// applied to a matching body, and no deleted record comes back.
//
// The specification is deliberately permissive wherever a behaviour is outside
// C11 (Set re-creating a missing key, PatchExpired reporting KEY_NOT_FOUND).

type kstate struct {
	Exists bool
	Body   Body
	Exp    int64 // unix nanos, 0 = never
	Cre    int64
}

type evKind int

const (
	evShift      evKind = iota // Shift* returned the key (clone attached)
	evPEPatched                // PatchExpired entry PATCHED
	evPECondFail               // PatchExpired entry CONDITION_NOT_MET
	evPEGone                   // PatchExpired entry KEY_NOT_FOUND
	evMPatched                 // mutator PatchTreasures PATCHED
	evMCondFail                // mutator PatchTreasures CONDITION_NOT_MET
	evMNotFound                // mutator PatchTreasures KEY_NOT_FOUND
	evDelOK                    // Delete DELETED
	evDelMiss                  // Delete NOT_FOUND
	evSetOK                    // Set (overwrite-only) stored the value
	evSetMiss                  // Set (overwrite-only) NOT_FOUND
)

func (k evKind) String() string {
	return [...]string{"shift", "patch-expired:PATCHED", "patch-expired:CONDITION_NOT_MET", "patch-expired:KEY_NOT_FOUND",
		"patch:PATCHED", "patch:CONDITION_NOT_MET", "patch:KEY_NOT_FOUND", "delete:DELETED", "delete:NOT_FOUND", "set:stored", "set:NOT_FOUND"}[k]
}

type event struct {
	Kind      evKind
	Actor     string // "claimer#2 (ShiftMatching …)" for messages
	Call, Ret int64  // monotonic nanos since case start

	// criteria of a claim, evaluated on the model state at the linearisation point
	Crit func(s kstate) (bool, string)

	// observed values (claims)
	RetBody    Body
	RetBodyErr string // non-empty when the returned body could not be decoded
	RetExp     int64
	RetCre     int64

	// effects
	Ops      []POp
	Cond     *PCond
	NewExp   int64 // != 0: the op sets ExpiredAt to this value
	NewCre   int64 // != 0: a Set writes CreatedAt
	ClearExp bool  // the op clears ExpiredAt (the record never expires from then on)
	SetTo    *Body // Set mutator
}

// step applies e to s and returns the possible successor states (empty with a
// reason when the precondition fails). More than one successor only arises for
// mutator writes on a record that no longer exists: what such a write does is
// outside C11, so "no effect" and "re-creates the record" are both accepted.
func step(s kstate, e *event) ([]kstate, string) {
	one := func(x kstate) ([]kstate, string) { return []kstate{x}, "" }
	switch e.Kind {
	case evShift:
		if !s.Exists {
			return nil, "record does not exist (already removed)"
		}
		if e.RetBodyErr != "" {
			return nil, "returned body unreadable: " + e.RetBodyErr
		}
		if e.RetBody != s.Body {
			return nil, fmt.Sprintf("returned body %v is not the record's body %v", e.RetBody, s.Body)
		}
		if e.RetExp != s.Exp {
			return nil, fmt.Sprintf("returned ExpiredAt %d is not the record's %d", e.RetExp, s.Exp)
		}
		if e.RetCre != s.Cre {
			return nil, fmt.Sprintf("returned CreatedAt %d is not the record's %d", e.RetCre, s.Cre)
		}
		if ok, why := e.Crit(s); !ok {
			return nil, why
		}
		s.Exists = false
		return one(s)
	case evPEPatched:
		if !s.Exists {
			return nil, "record does not exist"
		}
		if ok, why := e.Crit(s); !ok {
			return nil, why
		}
		if !evalCond(e.Cond, s.Body) {
			return nil, fmt.Sprintf("condition %s is false on body %v", e.Cond, s.Body)
		}
		nb := applyOps(e.Ops, s.Body)
		if e.RetBodyErr != "" {
			return nil, "returned NewMsgpack unreadable: " + e.RetBodyErr
		}
		if e.RetBody != nb {
			return nil, fmt.Sprintf("returned NewMsgpack %v is not ops applied to body %v (= %v)", e.RetBody, s.Body, nb)
		}
		ne := s.Exp
		if e.NewExp != 0 {
			ne = e.NewExp
		}
		if e.RetExp != ne {
			return nil, fmt.Sprintf("returned ExpiredAt %d, want %d", e.RetExp, ne)
		}
		s.Body, s.Exp = nb, ne
		return one(s)
	case evPECondFail:
		if !s.Exists {
			return nil, "record does not exist"
		}
		if ok, why := e.Crit(s); !ok {
			return nil, why
		}
		if evalCond(e.Cond, s.Body) {
			return nil, fmt.Sprintf("condition %s is true on body %v but CONDITION_NOT_MET was reported", e.Cond, s.Body)
		}
		return one(s)
	case evPEGone:
		return one(s) // documented race outcome; nothing asserted
	case evMPatched:
		if !s.Exists {
			// outside C11: the write went to the removed object (it stays invisible — lost — or
			// re-creates the record from that object); either way the object carries the ops
			lost := s
			lost.Body = applyOps(e.Ops, s.Body)
			if e.NewExp != 0 {
				lost.Exp = e.NewExp
			}
			if e.ClearExp {
				lost.Exp = 0
			}
			r := lost
			r.Exists = true
			return []kstate{lost, r}, ""
		}
		if !evalCond(e.Cond, s.Body) {
			return nil, fmt.Sprintf("condition %s is false on body %v", e.Cond, s.Body)
		}
		s.Body = applyOps(e.Ops, s.Body)
		if e.NewExp != 0 {
			s.Exp = e.NewExp
		}
		if e.ClearExp {
			s.Exp = 0
		}
		return one(s)
	case evMCondFail:
		if !s.Exists {
			return one(s)
		}
		if evalCond(e.Cond, s.Body) {
			return nil, fmt.Sprintf("condition %s is true on body %v", e.Cond, s.Body)
		}
		return one(s)
	case evMNotFound, evDelMiss, evSetMiss:
		if s.Exists {
			return nil, "record exists"
		}
		return one(s)
	case evDelOK:
		// On a missing record the acknowledgement is wrong, but between two Deletes that is not
		// C11's business; "handed out by a claim AND acknowledged as deleted" is judged by an
		// explicit clause in judgeC11.
		s.Exists = false
		return one(s)
	case evSetOK:
		if s.Exists {
			s.Body = *e.SetTo
			if e.NewExp != 0 {
				s.Exp = e.NewExp
			}
			if e.NewCre != 0 {
				s.Cre = e.NewCre
			}
			return one(s)
		}
		// outside C11: a Set on a removed record is lost, or re-creates the record either
		// as a fresh object or from the removed one (which keeps its old timestamps)
		fresh := kstate{Exists: true, Body: *e.SetTo, Exp: e.NewExp, Cre: e.NewCre}
		old := s
		old.Exists = true
		old.Body = *e.SetTo
		if e.NewExp != 0 {
			old.Exp = e.NewExp
		}
		if e.NewCre != 0 {
			old.Cre = e.NewCre
		}
		lost := old
		lost.Exists = false
		return []kstate{lost, fresh, old}, "" // lost: the write went to the removed, invisible object (not C11's business)
	}
	panic("step: unknown event kind")
}

// finalObs is what the quiescent reads say about a key.
type finalObs struct {
	Present bool
	Body    Body
	BodyErr string
	Exp     int64
	Cre     int64
	Ghost   []string // indexes that list the key although Get says it is absent
}

func finalMatches(s kstate, f finalObs) (bool, string) {
	if s.Exists != f.Present {
		if f.Present {
			return false, "record is present at the end"
		}
		return false, "record is absent at the end"
	}
	if !s.Exists {
		return true, ""
	}
	if f.BodyErr != "" {
		return false, "final body unreadable: " + f.BodyErr
	}
	if s.Body != f.Body {
		return false, fmt.Sprintf("final body %v, model %v", f.Body, s.Body)
	}
	if s.Exp != f.Exp {
		return false, fmt.Sprintf("final ExpiredAt %d, model %d", f.Exp, s.Exp)
	}
	return true, ""
}

// linearize searches for an order of evs accepted by the specification.
// It returns ok and, when not ok, the most advanced dead end as explanation.
func linearize(init kstate, evs []*event, fin finalObs) (bool, string) {
	n := len(evs)
	if n > 16 {
		// never generated; keep the search bounded
		return true, ""
	}
	type memoKey struct {
		mask uint32
		s    kstate
	}
	dead := map[memoKey]bool{}
	bestDepth := -1
	bestWhy := ""
	var dfs func(mask uint32, s kstate, depth int) bool
	dfs = func(mask uint32, s kstate, depth int) bool {
		if mask == uint32(1)<<n-1 {
			ok, why := finalMatches(s, fin)
			if !ok && depth >= bestDepth {
				bestDepth, bestWhy = depth, "after every operation: "+why
			}
			return ok
		}
		mk := memoKey{mask, s}
		if dead[mk] {
			return false
		}
		// minimal return time among pending events: an event may go next only
		// if no other pending event returned before it was called
		minRet := int64(1<<63 - 1)
		for i := 0; i < n; i++ {
			if mask&(1<<i) == 0 && evs[i].Ret < minRet {
				minRet = evs[i].Ret
			}
		}
		for i := 0; i < n; i++ {
			if mask&(1<<i) != 0 {
				continue
			}
			if evs[i].Call > minRet {
				continue
			}
			succ, why := step(s, evs[i])
			if len(succ) == 0 {
				if depth >= bestDepth {
					bestDepth = depth
					bestWhy = fmt.Sprintf("%s [%s]: %s", evs[i].Actor, evs[i].Kind, why)
				}
				continue
			}
			for _, ns := range succ {
				if dfs(mask|1<<i, ns, depth+1) {
					return true
				}
			}
		}
		dead[mk] = true
		return false
	}
	if dfs(0, init, 0) {
		return true, ""
	}
	return false, bestWhy
}

func describeEvents(evs []*event) string {
	c := append([]*event(nil), evs...)
	sort.Slice(c, func(i, j int) bool { return c[i].Call < c[j].Call })
	var parts []string
	for _, e := range c {
		parts = append(parts, fmt.Sprintf("%s→%s[%dµs..%dµs]", e.Actor, e.Kind, e.Call/1000, e.Ret/1000))
	}
	return strings.Join(parts, "; ")
}

// classify names the failure shape of a key whose history was rejected. The
// shapes correspond to distinct root causes so that witness facets can expect
// exactly one of them.
//
//	double-hand-out   two claims (or a claim and an acknowledged Delete) both got the record
//	resurrected       a removed record is present / re-patched afterwards
//	stale-candidate   a claim with an index-accelerated filter returned a record whose body fails the filter
//	empty-candidates  same, but no write in the whole scenario could ever have made the indexed leg true for that record
//	select-apply-gap  PatchExpired patched a record that no longer satisfied its selection criteria
//	criteria          any other claim of a record that does not satisfy the request
//	non-linearizable  anything else
func classify(init kstate, evs []*event, fin finalObs, indexed map[*event]bool, critNow map[*event]func(Body, int64, int64) bool, neverCand map[*event]bool) string {
	removers := 0
	claims := 0
	for _, e := range evs {
		switch e.Kind {
		case evShift:
			removers++
			claims++
		case evDelOK:
			removers++
		case evPEPatched, evPECondFail:
			claims++ // PatchExpired saw (selected and judged) the record
		}
	}
	// a claim whose own returned data fails its criteria
	for _, e := range evs {
		f := critNow[e]
		if f == nil {
			continue
		}
		switch e.Kind {
		case evShift:
			if e.RetBodyErr == "" && !f(e.RetBody, e.RetExp, e.RetCre) {
				if indexed[e] {
					if neverCand != nil && neverCand[e] {
						return "empty-candidates"
					}
					return "stale-candidate"
				}
				return "criteria"
			}
		}
	}
	if removers >= 2 {
		return "double-hand-out"
	}
	if removers == 1 && claims >= 2 {
		return "double-hand-out"
	}
	if removers >= 1 && (fin.Present || len(fin.Ghost) > 0) {
		return "resurrected"
	}
	for _, e := range evs {
		if e.Kind == evPEPatched || e.Kind == evPECondFail {
			if indexed[e] {
				return "stale-candidate"
			}
			return "select-apply-gap"
		}
	}
	return "non-linearizable"
}
