//go:build verifvsched

package claims

import (
	"testing"

	"github.com/hydraide/hydraide/app/verifshim/vsched"
	"pgregory.net/rapid"

	"verifharness/internal/pbt"
)

// Witness facets of the recorded C11 findings: each forces the trigger of one
// root cause (through a vsched pause where an interleaving is needed) inside a
// small random neighbourhood and expects exactly that failure shape.

func witnessRecs(t *rapid.T, n int, status string) []C11Rec {
	var recs []C11Rec
	for i := 0; i < n; i++ {
		recs = append(recs, C11Rec{Exp: -rapid.IntRange(5, 4000).Draw(t, "exp"), Cre: -rapid.IntRange(4100, 8000).Draw(t, "cre"),
			B: Body{Status: status, Owner: "none", N: int64(rapid.IntRange(0, 20).Draw(t, "n"))}})
	}
	return recs
}

func allKeys(n int) []int {
	ks := make([]int, n)
	for i := range ks {
		ks[i] = i
	}
	return ks
}

// --- empty-candidate-set-matches-all (sequential) ---------------------------

func genC11EmptyCand(t *rapid.T) C11Scenario {
	n := rapid.IntRange(3, 8).Draw(t, "n")
	s := C11Scenario{Mem: rapid.Bool().Draw(t, "mem"), Recs: witnessRecs(t, n, rapid.SampledFrom([]string{"ready", "held"}).Draw(t, "st"))}
	f := &Filt{Legs: []Leg{{Field: "status", Op: "eq", S: "leased"}}}
	if rapid.Bool().Draw(t, "in") {
		f = &Filt{Legs: []Leg{{Field: "status", Op: "in", In: []string{"leased", "done"}}}}
	}
	s.Claimers = []C11Claimer{{Kind: "sm", Index: rapid.SampledFrom([]string{"key", "exp", "cre"}).Draw(t, "index"), HowMany: int32(rapid.IntRange(0, 3).Draw(t, "how")), Filter: excludeAnchor(f)}}
	return s
}

func TestC11WitnessEmptyCandidates(t *testing.T) {
	pbt.Witness(t, pbt.Spec[C11Scenario]{
		ID: "C11", Facet: "witness-empty-candidates",
		Rule:  "one ShiftMatching call, no concurrency: 3–8 records with status ready|held, filter status EQUAL \"leased\" (or IN [leased, done]) — the indexed leg matches no record",
		Quick: 12, Thorough: 100, Gen: genC11EmptyCand, Run: runC11,
	}, "empty-candidate-set-matches-all", "empty-candidates")
}

// --- shift-removal-not-atomic -------------------------------------------------

func genC11NonAtomic(t *rapid.T) C11Scenario {
	n := rapid.IntRange(3, 8).Draw(t, "n")
	s := C11Scenario{Mem: rapid.Bool().Draw(t, "mem"), Recs: witnessRecs(t, n, "ready")}
	s.Claimers = []C11Claimer{{Kind: "se", HowMany: 0}}
	if rapid.Bool().Draw(t, "cross-index") {
		// a second claimer walks the KEY index while the first has selected but not yet removed
		s.Claimers = append(s.Claimers, C11Claimer{Kind: "sm", Index: "key", HowMany: int32(rapid.IntRange(0, 3).Draw(t, "how")), Filter: excludeAnchor(nil), DelayUs: 3000})
		s.Plan = []vsched.Action{{Site: "swamp:deleteHandler:StartTreasureGuard:ac9b2b", Hit: 1, Kind: "pause", Until: "claimer-1-done", MaxWaitMs: 800}}
	} else {
		s.Mutators = []C11Mutator{{Kind: "delete", Keys: []int{rapid.IntRange(0, n-1).Draw(t, "victim")}, DelayUs: 3000}}
		s.Plan = []vsched.Action{{Site: "swamp:deleteHandler:StartTreasureGuard:ac9b2b", Hit: 1, Kind: "pause", Until: "mutators-done", MaxWaitMs: 800}}
	}
	return s
}

func TestC11WitnessNonAtomicShift(t *testing.T) {
	pbt.Witness(t, pbt.Spec[C11Scenario]{
		ID: "C11", Facet: "witness-shift-removal-not-atomic",
		Rule: "ShiftExpired(all) selects 3–8 expired records and is paused before it removes the first one from the key beacon; meanwhile a Delete of one selected key (answers DELETED) " +
			"or a ShiftMatching over the KEY index (returns the same records) runs to completion",
		Quick: 12, Thorough: 100, Gen: genC11NonAtomic, Run: runC11,
	}, "shift-removal-not-atomic", "double-hand-out")
}

// --- stale-candidate-keyset ---------------------------------------------------

func genC11Stale(t *rapid.T) C11Scenario {
	n := rapid.IntRange(3, 8).Draw(t, "n")
	s := C11Scenario{Mem: rapid.Bool().Draw(t, "mem"), Recs: witnessRecs(t, n, "ready")}
	f := &Filt{Legs: []Leg{{Field: "status", Op: "eq", S: "ready"}}}
	victims := []int{rapid.IntRange(0, n-1).Draw(t, "victim")}
	if rapid.Bool().Draw(t, "pe") {
		s.Claimers = []C11Claimer{{Kind: "pe", HowMany: 0, Filter: f, Ops: []POp{{Kind: "set-owner", S: "w0"}}, Lease: 900}}
		s.Plan = []vsched.Action{{Site: "beacon:SelectExpiredForPatchWithCap:Lock:e380a5", Hit: 1, Kind: "pause", Until: "mutators-done", MaxWaitMs: 800}}
	} else {
		s.Claimers = []C11Claimer{{Kind: "sm", Index: rapid.SampledFrom([]string{"key", "exp", "cre"}).Draw(t, "index"), HowMany: 0, Filter: excludeAnchor(f)}}
		s.Plan = []vsched.Action{{Site: "beacon:ShiftMatching:Lock:e380a5", Hit: 1, Kind: "pause", Until: "mutators-done", MaxWaitMs: 800}}
	}
	s.Mutators = []C11Mutator{{Kind: "patch", Keys: victims, Ops: []POp{{Kind: "set-status", S: "done"}}, DelayUs: 3000}}
	return s
}

func TestC11WitnessStaleCandidates(t *testing.T) {
	pbt.Witness(t, pbt.Spec[C11Scenario]{
		ID: "C11", Facet: "witness-stale-candidate-keyset",
		Rule: "a ShiftMatching / PatchExpired with the index-accelerated filter status EQUAL \"ready\" has computed its candidate key set and is paused before the beacon lock; " +
			"a PatchTreasures sets one candidate's status to \"done\" (acknowledged), then the claim proceeds",
		Quick: 12, Thorough: 100, Gen: genC11Stale, Run: runC11,
	}, "stale-candidate-keyset", "stale-candidate")
}

// --- patch-expired-select-apply-gap -----------------------------------------------

func genC11Gap(t *rapid.T) C11Scenario {
	n := rapid.IntRange(3, 8).Draw(t, "n")
	s := C11Scenario{Mem: rapid.Bool().Draw(t, "mem"), Recs: witnessRecs(t, n, "ready")}
	s.Claimers = []C11Claimer{{Kind: "pe", HowMany: 0, Filter: &Filt{Legs: []Leg{{Field: "status", Op: "ne", S: "done"}}}, Ops: []POp{{Kind: "set-owner", S: "w0"}}, Lease: 900}}
	m := C11Mutator{Kind: "patch", Keys: allKeys(n), DelayUs: 3000}
	switch rapid.IntRange(0, 3).Draw(t, "gap-kind") {
	case 0:
		m.ExpSec = 1800 // the records are no longer expired when they get patched
	case 1:
		m.ClearExp = true // the records never expire any more (Meta.ClearExpiredAt only)
	case 2:
		m.ClearExp = true
		m.Ops = []POp{{Kind: "set-owner", S: "a"}} // … together with a body op that leaves them inside the filter
	default:
		m.Ops = []POp{{Kind: "set-status", S: "done"}}
	}
	s.Mutators = []C11Mutator{m}
	s.Plan = []vsched.Action{{Site: "swamp_patch_expired:applyPatchExpiredOne:StartTreasureGuard:f4a9b0", Hit: 1, Kind: "pause", Until: "mutators-done", MaxWaitMs: 800}}
	return s
}

func TestC11WitnessSelectApplyGap(t *testing.T) {
	pbt.Witness(t, pbt.Spec[C11Scenario]{
		ID: "C11", Facet: "witness-patch-expired-select-apply-gap",
		Rule: "PatchExpired (plain filter status NOT_EQUAL \"done\") has selected 3–8 expired records and is paused before patching the first; a PatchTreasures moves every record out of the " +
			"filter (status=done), slides its ExpiredAt into the future or clears it (Meta.ClearExpiredAt, with or without a body op) — acknowledged; then the per-record patches run",
		Quick: 12, Thorough: 100, Gen: genC11Gap, Run: runC11,
	}, "patch-expired-select-apply-gap", "select-apply-gap")
}

// --- patch-expired-resaves-removed-record -------------------------------------------

func genC11Resave(t *rapid.T) C11Scenario {
	n := rapid.IntRange(3, 8).Draw(t, "n")
	s := C11Scenario{Mem: rapid.Bool().Draw(t, "mem"), Recs: witnessRecs(t, n, "ready")}
	lease := 0
	if rapid.Bool().Draw(t, "lease") {
		lease = 900
	}
	s.Claimers = []C11Claimer{{Kind: "pe", HowMany: 0, Ops: []POp{{Kind: "set-owner", S: "w0"}}, Lease: lease}}
	s.Mutators = []C11Mutator{{Kind: "delete", Keys: []int{rapid.IntRange(0, n-1).Draw(t, "victim")}, DelayUs: 3000}}
	s.Plan = []vsched.Action{{Site: "swamp_patch_expired:applyPatchExpiredOne:StartTreasureGuard:f4a9b0", Hit: 1, Kind: "pause", Until: "mutators-done", MaxWaitMs: 800}}
	return s
}

func TestC11WitnessResave(t *testing.T) {
	pbt.Witness(t, pbt.Spec[C11Scenario]{
		ID: "C11", Facet: "witness-patch-expired-resaves-removed-record",
		Rule: "PatchExpired has selected 3–8 expired, not yet file-backed records and is paused before patching the first; a Delete of one selected key is acknowledged (DELETED); " +
			"then the per-record patches run",
		Quick: 12, Thorough: 100, Gen: genC11Resave, Run: runC11,
	}, "patch-expired-resaves-removed-record", "resurrected")
}

// --- reindex-duplicates-order-entry ---------------------------------------------

func genC11ReindexDup(t *rapid.T) C11Scenario {
	n := rapid.IntRange(3, 8).Draw(t, "n")
	s := C11Scenario{Mem: rapid.Bool().Draw(t, "mem"), Recs: witnessRecs(t, n, "ready")}
	victim := rapid.IntRange(0, n-1).Draw(t, "victim")
	s.Claimers = []C11Claimer{{Kind: "pe", HowMany: 0, Ops: []POp{{Kind: "set-owner", S: "w0"}}}}
	s.Mutators = []C11Mutator{
		// slides the victim's expiry: SaveFunction removes it from the expiry index and adds it back
		{Kind: "patch", Keys: []int{victim}, ExpSec: -rapid.IntRange(5000, 6000).Draw(t, "newexp"), DelayUs: 3000},
		{Kind: "delete", Keys: []int{victim}, DelayUs: 400000},
	}
	s.Plan = []vsched.Action{
		// PatchExpired has selected and patched all n records (n passages of beacon.Add through the
		// write buffer); hold it before the re-index until the writer has started, plus a moment
		{Site: "beacon:ReindexExpiration:atomic.StoreInt32:b20a54", Hit: 1, Kind: "pause", Until: "site:swamp_patch:PatchFields:StartTreasureGuard:f4a9b0", MaxWaitMs: 150},
		{Site: "beacon:ReindexExpiration:Lock:e380a5", Hit: 1, Kind: "sleep", SleepUs: 4000},
		// the writer's SaveFunction has removed the victim from the expiry index; its Add (passage n+1)
		// waits until PatchExpired has re-indexed (the DESC re-sort comes after the ASC re-index)
		{Site: "beacon:Add:atomic.StoreInt32:b20a54", Hit: n + 1, Kind: "pause", Until: "site:beacon:SortByExpirationTimeDesc:Lock:e380a5", MaxWaitMs: 150},
	}
	return s
}

func TestC11WitnessReindexDup(t *testing.T) {
	pbt.Witness(t, pbt.Spec[C11Scenario]{
		ID: "C11", Facet: "witness-reindex-duplicates-order-entry",
		Rule: "PatchExpired (no lease) has selected and patched 3–8 expired records; a PatchTreasures with Meta.SetExpiredAt on one of them is held between SaveFunction's expiry-index Delete and Add " +
			"while PatchExpired re-indexes (ReindexExpiration appends to the order slice without touching the key map), then adds the key a second time; a later Delete removes one of the two entries",
		Quick: 12, Thorough: 100, Gen: genC11ReindexDup, Run: runC11,
	}, "reindex-duplicates-order-entry", "resurrected")
}

// --- index-visible-before-built --------------------------------------------------------

func genC11HalfBuilt(t *rapid.T) C11Scenario {
	n := rapid.IntRange(6, 12).Draw(t, "n")
	s := C11Scenario{Mem: rapid.Bool().Draw(t, "mem"), Cold: true, ColdIndexForced: true, Recs: witnessRecs(t, n, "ready")}
	f := func() *Filt { return excludeAnchor(nil) }
	s.Claimers = []C11Claimer{
		{Kind: "sm", Index: "key", Desc: true, HowMany: 1, Filter: f()},                // builds the KEY index (first use)
		{Kind: "sm", Index: "key", Desc: true, HowMany: 0, Filter: f(), DelayUs: 3000}, // walks it while the DESC half is filled but not sorted
	}
	s.Plan = []vsched.Action{{Site: "beacon:SortByKeyDesc:Lock:e380a5", Hit: 1, Kind: "pause", Until: "claimer-1-done", MaxWaitMs: 800}}
	return s
}

func TestC11WitnessHalfBuiltIndex(t *testing.T) {
	pbt.Witness(t, pbt.Spec[C11Scenario]{
		ID: "C11", Facet: "witness-index-visible-before-built",
		Rule: "6–12 records, no index built yet; a ShiftMatching over KEY/DESC starts the first build (buildBeacon marks the DESC half initialised, fills it in map order) and is paused before SortByKeyDesc; " +
			"a second ShiftMatching(KEY, DESC, all) takes buildBeacon's unlocked fast path (both halves 'initialised') and walks the unsorted slice",
		Quick: 12, Thorough: 100, Gen: genC11HalfBuilt, Run: runC11,
	}, "index-visible-before-built", "order")
}

// --- forced gap for ShiftMatching: the index timestamp leaves the window before the selection lock ----------

// genC11WindowGap: a ShiftMatching over a time index with a FromTime/ToTime window and an index-accelerated
// filter leg has built its predicate (candidate keys collected) and is paused before the beacon lock; a
// filter-neutral write moves one candidate's index timestamp out of the window and is acknowledged; then the
// selection runs. The record is outside the window when it is examined and must not be claimed.
func genC11WindowGap(t *rapid.T) C11Scenario {
	n := rapid.IntRange(3, 8).Draw(t, "n")
	s := C11Scenario{Mem: rapid.Bool().Draw(t, "mem")}
	// ExpiredAt in [-3000,-100] s, CreatedAt in [-7000,-4100] s
	for i := 0; i < n; i++ {
		s.Recs = append(s.Recs, C11Rec{Exp: -rapid.IntRange(100, 3000).Draw(t, "exp"), Cre: -rapid.IntRange(4100, 7000).Draw(t, "cre"),
			B: Body{Status: "ready", Owner: "none", N: int64(rapid.IntRange(0, 20).Draw(t, "n"))}})
	}
	victim := rapid.IntRange(0, n-1).Draw(t, "victim")
	f := &Filt{Legs: []Leg{{Field: "status", Op: "eq", S: "ready"}}}
	c := C11Claimer{Kind: "sm", HowMany: 0, Desc: rapid.Bool().Draw(t, "desc"), Filter: excludeAnchor(f)}
	var m C11Mutator
	switch rapid.IntRange(0, 2).Draw(t, "variant") {
	case 0: // expiry index, lease renewal through PatchTreasures Meta.SetExpiredAt (body untouched)
		c.Index, c.From, c.To = "exp", -3500, -50
		m = C11Mutator{Kind: "patch", Keys: []int{victim}, ExpSec: rapid.IntRange(600, 4000).Draw(t, "newexp")}
	case 1: // expiry index, Set of the same body with a new ExpiredAt
		c.Index, c.From, c.To = "exp", -3500, -50
		m = C11Mutator{Kind: "set", Keys: []int{victim}, Body: s.Recs[victim].B, ExpSec: rapid.SampledFrom([]int{-20, -10, 700, 2000}).Draw(t, "newexp")}
	default: // creation index, Set of the same body with a new CreatedAt
		c.Index, c.From, c.To = "cre", -7500, -4000
		m = C11Mutator{Kind: "set", Keys: []int{victim}, Body: s.Recs[victim].B, CreSec: -rapid.SampledFrom([]int{100, 2000, 3900, 7600, 9000}).Draw(t, "newcre")}
	}
	m.DelayUs = 3000
	s.Claimers = []C11Claimer{c}
	s.Mutators = []C11Mutator{m}
	s.Plan = []vsched.Action{{Site: "beacon:ShiftMatching:Lock:e380a5", Hit: 1, Kind: "pause", Until: "mutators-done", MaxWaitMs: 800}}
	return s
}
