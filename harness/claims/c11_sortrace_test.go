//go:build verifvsched

package claims

import (
	"fmt"
	"sync"
	"testing"
	"time"

	hydrapb "github.com/hydraide/hydraide/sdk/go/hydraidego/v3/hydraidepbgo"
	"pgregory.net/rapid"

	"verifharness/internal/pbt"
	"verifharness/internal/rig"
)

// one case: file-backed records; PatchExpired (no lease) re-indexes while ShiftMatching(KEY) removes
// future-expiry records (deleteHandler zeroes their ExpirationTime before it takes them out of the index)
func sortProbeCase(e *env, n int) (bool, string) {
	sn := freshSwamp("sp-", false)
	defer e.destroy(sn)
	isl := rig.Island(sn)
	now := time.Now().UnixNano()
	var recs []seedRec
	for i := 0; i < n; i++ {
		r := seedRec{Key: keyOf(i), Created: now - int64(9000+i)*1e9}
		if i%2 == 0 {
			r.Body = Body{Status: "ready", Owner: "a", N: int64(i)}
			r.Exp = now + int64(1000+i)*1e9 // future, shifted through the KEY index
		} else {
			r.Body = Body{Status: "ready", Owner: "none", N: int64(i)}
			r.Exp = now - int64(100+i)*1e9 // expired
		}
		recs = append(recs, r)
	}
	recs = append(recs, seedRec{Key: anchorKeys[0], Body: anchorBody})
	if err := e.seed(sn, recs); err != nil {
		return false, err.Error()
	}
	e.r.CloseSwamp(sn)
	for _, it := range []hydrapb.IndexType_Type{hydrapb.IndexType_KEY, hydrapb.IndexType_EXPIRATION_TIME} {
		e.r.G.GetByIndex(e.ctx, &hydrapb.GetByIndexRequest{IslandID: isl, SwampName: sn, IndexType: it, Limit: 1})
	}
	f := (&Filt{Legs: []Leg{{Field: "owner", Op: "ne", S: "none"}, {Field: "n", Op: "ge", I: 0}}}).proto()
	var wg sync.WaitGroup
	wg.Add(2)
	go func() {
		defer wg.Done()
		for i := 0; i < 6; i++ {
			e.r.G.PatchExpiredTreasures(e.ctx, &hydrapb.PatchExpiredTreasuresRequest{IslandID: isl, SwampName: sn, HowMany: 3, Ops: opsProto([]POp{{Kind: "inc-n", I: 1}})})
		}
	}()
	go func() {
		defer wg.Done()
		for i := 0; i < 12; i++ {
			e.r.G.ShiftMatchingTreasures(e.ctx, &hydrapb.ShiftMatchingTreasuresRequest{IslandID: isl, SwampName: sn, IndexType: hydrapb.IndexType_KEY, HowMany: 2, Filters: f})
		}
	}()
	wg.Wait()
	resp, err := e.r.G.GetByIndex(e.ctx, &hydrapb.GetByIndexRequest{IslandID: isl, SwampName: sn, IndexType: hydrapb.IndexType_EXPIRATION_TIME})
	if err != nil || resp == nil {
		return false, fmt.Sprint(err)
	}
	var prev int64
	var prevKey string
	for _, tr := range resp.Treasures {
		x := tsToNanos(tr.ExpiredAt)
		if x < prev {
			return true, fmt.Sprintf("EXPIRATION_TIME ASC lists %s (%+ds) after %s (%+ds)", tr.Key, (x-now)/1e9, prevKey, (prev-now)/1e9)
		}
		prev, prevKey = x, tr.Key
	}
	return false, ""
}

// C11SortRace is a statistical witness (no instrumentation site exists inside a sort comparator):
// each case repeats the racing pair Reps times on fresh swamps and fails when the expiry index is
// found unsorted at quiescence.
type C11SortRace struct {
	N    int `json:"n"`
	Reps int `json:"reps"`
}

func runC11SortRace(s C11SortRace) pbt.Outcome {
	e := getEnv()
	if poisoned {
		return pbt.Outcome{Skip: true}
	}
	for i := 0; i < s.Reps; i++ {
		if bad, msg := sortProbeCase(e, s.N); bad {
			return pbt.Failf("order", "repetition %d: after PatchExpired(HowMany=3, no lease) x6 raced ShiftMatching(KEY, HowMany=2) x12 over %d file-backed records, at quiescence %s — the index stays unsorted until its next sort, ShiftExpired/PatchExpired walk it as is", i, s.N, msg)
		}
	}
	return pbt.Outcome{NonTrivial: true, Classes: []string{"no-disorder"}}
}

func TestC11WitnessSortRace(t *testing.T) {
	pbt.Witness(t, pbt.Spec[C11SortRace]{
		ID: "C11", Facet: "witness-expiry-sort-reads-live-values",
		Rule: "statistical: 40–60 file-backed records, half expired, half with a future expiry; PatchExpired (re-indexes = sorts the expiry index) races ShiftMatching over the KEY index " +
			"(deleteHandler zeroes ExpirationTime of a file-backed record before it leaves the expiry index); the EXPIRATION_TIME listing at quiescence must be sorted; about 0.6 % of repetitions fail",
		Quick: 8, Thorough: 40,
		Gen: func(t *rapid.T) C11SortRace {
			return C11SortRace{N: rapid.IntRange(40, 60).Draw(t, "n"), Reps: 150}
		},
		Run: runC11SortRace,
	}, "expiry-sort-reads-live-values", "order")
}
