// Package claims holds the checks for C11 (claims hand out disjoint, matching,
// oldest-first records) and C12 (cap-bearing operations never push the match
// count above the cap).
package claims

import (
	"encoding/binary"
	"errors"
	"fmt"
	"math"
)

// A small independent MessagePack codec for the flat record bodies used by the
// claim checks: {"status": str, "owner": str, "n": int64}. The encoder fixes
// the wire type of every scalar; the decoder understands every scalar / map /
// array code so that bodies produced by the server's structural patcher can be
// read back without the server's own decoder.

// Body is the JSON-serialisable description of one record body.
type Body struct {
	Status string `json:"st"`
	Owner  string `json:"ow"`
	N      int64  `json:"n"`
}

func (b Body) String() string {
	return fmt.Sprintf("{status:%s owner:%s n:%d}", b.Status, b.Owner, b.N)
}

func mpStr(b []byte, s string) []byte {
	n := len(s)
	switch {
	case n < 32:
		b = append(b, 0xa0|byte(n))
	case n < 256:
		b = append(b, 0xd9, byte(n))
	default:
		b = append(b, 0xda, byte(n>>8), byte(n))
	}
	return append(b, s...)
}

func mpInt64(b []byte, v int64) []byte {
	return binary.BigEndian.AppendUint64(append(b, 0xd3), uint64(v))
}

// encodeBody returns the raw msgpack map (no magic prefix).
func encodeBody(x Body) []byte {
	b := []byte{0x83}
	b = mpStr(b, "status")
	b = mpStr(b, x.Status)
	b = mpStr(b, "owner")
	b = mpStr(b, x.Owner)
	b = mpStr(b, "n")
	b = mpInt64(b, x.N)
	return b
}

// wrapBody prepends HydrAIDE's 2-byte MessagePack magic (0xC7 0x00).
func wrapBody(raw []byte) []byte { return append([]byte{0xC7, 0x00}, raw...) }

// unwrapBody strips the magic; ok=false when it is missing.
func unwrapBody(b []byte) ([]byte, bool) {
	if len(b) < 2 || b[0] != 0xC7 || b[1] != 0x00 {
		return nil, false
	}
	return b[2:], true
}

var errMp = errors.New("msgpack: malformed")

// mpDecode decodes one value starting at b[0]; returns the value and the rest.
// Maps decode to map[string]any (non-string keys are an error), arrays to []any,
// every signed/unsigned integer code to int64 (uint64 above MaxInt64 stays uint64),
// floats to float64, str/bin to string.
func mpDecode(b []byte) (any, []byte, error) {
	if len(b) == 0 {
		return nil, nil, errMp
	}
	c := b[0]
	b = b[1:]
	need := func(n int) bool { return len(b) >= n }
	switch {
	case c <= 0x7f:
		return int64(c), b, nil
	case c >= 0xe0:
		return int64(int8(c)), b, nil
	case c >= 0xa0 && c <= 0xbf:
		n := int(c & 0x1f)
		if !need(n) {
			return nil, nil, errMp
		}
		return string(b[:n]), b[n:], nil
	case c >= 0x80 && c <= 0x8f:
		return mpDecodeMap(b, int(c&0x0f))
	case c >= 0x90 && c <= 0x9f:
		return mpDecodeArr(b, int(c&0x0f))
	}
	switch c {
	case 0xc0:
		return nil, b, nil
	case 0xc2:
		return false, b, nil
	case 0xc3:
		return true, b, nil
	case 0xcc:
		if !need(1) {
			return nil, nil, errMp
		}
		return int64(b[0]), b[1:], nil
	case 0xcd:
		if !need(2) {
			return nil, nil, errMp
		}
		return int64(binary.BigEndian.Uint16(b)), b[2:], nil
	case 0xce:
		if !need(4) {
			return nil, nil, errMp
		}
		return int64(binary.BigEndian.Uint32(b)), b[4:], nil
	case 0xcf:
		if !need(8) {
			return nil, nil, errMp
		}
		u := binary.BigEndian.Uint64(b)
		if u > math.MaxInt64 {
			return u, b[8:], nil
		}
		return int64(u), b[8:], nil
	case 0xd0:
		if !need(1) {
			return nil, nil, errMp
		}
		return int64(int8(b[0])), b[1:], nil
	case 0xd1:
		if !need(2) {
			return nil, nil, errMp
		}
		return int64(int16(binary.BigEndian.Uint16(b))), b[2:], nil
	case 0xd2:
		if !need(4) {
			return nil, nil, errMp
		}
		return int64(int32(binary.BigEndian.Uint32(b))), b[4:], nil
	case 0xd3:
		if !need(8) {
			return nil, nil, errMp
		}
		return int64(binary.BigEndian.Uint64(b)), b[8:], nil
	case 0xca:
		if !need(4) {
			return nil, nil, errMp
		}
		return float64(math.Float32frombits(binary.BigEndian.Uint32(b))), b[4:], nil
	case 0xcb:
		if !need(8) {
			return nil, nil, errMp
		}
		return math.Float64frombits(binary.BigEndian.Uint64(b)), b[8:], nil
	case 0xd9, 0xc4:
		if !need(1) {
			return nil, nil, errMp
		}
		n := int(b[0])
		b = b[1:]
		if !need(n) {
			return nil, nil, errMp
		}
		return string(b[:n]), b[n:], nil
	case 0xda, 0xc5:
		if !need(2) {
			return nil, nil, errMp
		}
		n := int(binary.BigEndian.Uint16(b))
		b = b[2:]
		if !need(n) {
			return nil, nil, errMp
		}
		return string(b[:n]), b[n:], nil
	case 0xde:
		if !need(2) {
			return nil, nil, errMp
		}
		return mpDecodeMap(b[2:], int(binary.BigEndian.Uint16(b)))
	case 0xdc:
		if !need(2) {
			return nil, nil, errMp
		}
		return mpDecodeArr(b[2:], int(binary.BigEndian.Uint16(b)))
	}
	return nil, nil, fmt.Errorf("msgpack: unsupported code 0x%02x", c)
}

func mpDecodeMap(b []byte, n int) (any, []byte, error) {
	m := make(map[string]any, n)
	for i := 0; i < n; i++ {
		k, rest, err := mpDecode(b)
		if err != nil {
			return nil, nil, err
		}
		ks, ok := k.(string)
		if !ok {
			return nil, nil, errMp
		}
		v, rest2, err := mpDecode(rest)
		if err != nil {
			return nil, nil, err
		}
		m[ks] = v
		b = rest2
	}
	return m, b, nil
}

func mpDecodeArr(b []byte, n int) (any, []byte, error) {
	a := make([]any, 0, n)
	for i := 0; i < n; i++ {
		v, rest, err := mpDecode(b)
		if err != nil {
			return nil, nil, err
		}
		a = append(a, v)
		b = rest
	}
	return a, b, nil
}

// decodeBody decodes a raw msgpack map (no magic) into a Body. It is strict:
// exactly the three fields with the expected kinds, nothing trailing.
func decodeBody(raw []byte) (Body, error) {
	v, rest, err := mpDecode(raw)
	if err != nil {
		return Body{}, err
	}
	if len(rest) != 0 {
		return Body{}, fmt.Errorf("msgpack: %d trailing bytes", len(rest))
	}
	m, ok := v.(map[string]any)
	if !ok {
		return Body{}, errors.New("body is not a map")
	}
	if len(m) != 3 {
		return Body{}, fmt.Errorf("body has %d fields, want 3: %v", len(m), m)
	}
	var out Body
	if out.Status, ok = m["status"].(string); !ok {
		return Body{}, fmt.Errorf("status is not a string: %v", m)
	}
	if out.Owner, ok = m["owner"].(string); !ok {
		return Body{}, fmt.Errorf("owner is not a string: %v", m)
	}
	if out.N, ok = m["n"].(int64); !ok {
		return Body{}, fmt.Errorf("n is not an integer: %v", m)
	}
	return out, nil
}

// decodeWrapped decodes a BytesVal (magic + msgpack map).
func decodeWrapped(b []byte) (Body, error) {
	raw, ok := unwrapBody(b)
	if !ok {
		return Body{}, errors.New("missing msgpack magic prefix")
	}
	return decodeBody(raw)
}

// fieldSet says which of the three body fields a (possibly partial) body carries.
// Bodies created by PatchTreasures with the default empty seed only hold the
// fields their ops wrote.
type fieldSet struct{ St, Ow, N bool }

var allFields = fieldSet{true, true, true}

// decodePartialBody accepts a map holding any subset of {status, owner, n} with the expected kinds.
func decodePartialBody(raw []byte) (Body, fieldSet, error) {
	v, rest, err := mpDecode(raw)
	if err != nil {
		return Body{}, fieldSet{}, err
	}
	if len(rest) != 0 {
		return Body{}, fieldSet{}, fmt.Errorf("msgpack: %d trailing bytes", len(rest))
	}
	m, ok := v.(map[string]any)
	if !ok {
		return Body{}, fieldSet{}, errors.New("body is not a map")
	}
	var out Body
	var has fieldSet
	for k, x := range m {
		switch k {
		case "status":
			if out.Status, ok = x.(string); !ok {
				return Body{}, has, fmt.Errorf("status is not a string: %v", m)
			}
			has.St = true
		case "owner":
			if out.Owner, ok = x.(string); !ok {
				return Body{}, has, fmt.Errorf("owner is not a string: %v", m)
			}
			has.Ow = true
		case "n":
			if out.N, ok = x.(int64); !ok {
				return Body{}, has, fmt.Errorf("n is not an integer: %v", m)
			}
			has.N = true
		default:
			return Body{}, has, fmt.Errorf("unexpected field %q: %v", k, m)
		}
	}
	return out, has, nil
}
