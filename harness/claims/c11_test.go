//go:build verifvsched

package claims

import (
	"fmt"
	"os"
	"sort"
	"strings"
	"sync"
	"testing"
	"time"

	"github.com/hydraide/hydraide/app/server/gateway"
	"github.com/hydraide/hydraide/app/verifshim/vsched"
	hydrapb "github.com/hydraide/hydraide/sdk/go/hydraidego/v3/hydraidepbgo"
	"pgregory.net/rapid"

	"verifharness/internal/pbt"
	"verifharness/internal/rig"
)

func TestMain(m *testing.M) {
	code := m.Run()
	closeEnv()
	os.Exit(code)
}

// C11 — Claims hand out disjoint, matching, oldest-first records.

type C11Rec struct {
	Exp int    `json:"exp"` // seconds relative to case start: <0 expired, >0 future, 0 never expires
	Cre int    `json:"cre"` // seconds relative to case start (always in the past)
	B   Body   `json:"b"`
	Alt string `json:"alt,omitempty"` // C12 only: "int" | "str" | "raw" — the record's value is not a msgpack map
}

type C11Claimer struct {
	Kind       string `json:"kind"` // se = ShiftExpiredTreasures, sm = ShiftMatchingTreasures, pe = PatchExpiredTreasures
	HowMany    int32  `json:"how_many"`
	MaxResults int32  `json:"max_results,omitempty"`
	Index      string `json:"index,omitempty"` // sm: key | exp | cre
	Desc       bool   `json:"desc,omitempty"`
	Filter     *Filt  `json:"filter,omitempty"`
	From       int    `json:"from,omitempty"` // sm on exp/cre: window bounds, seconds relative to case start, 0 = unset
	To         int    `json:"to,omitempty"`
	Ops        []POp  `json:"ops,omitempty"`   // pe
	Cond       *PCond `json:"cond,omitempty"`  // pe
	Lease      int    `json:"lease,omitempty"` // pe: Meta.SetExpiredAt = start + Lease s (0 = no Meta)
	DelayUs    int    `json:"delay_us,omitempty"`
}

type C11Mutator struct {
	Kind     string `json:"kind"` // patch | set | delete
	Keys     []int  `json:"keys"`
	Ops      []POp  `json:"ops,omitempty"`
	AltOps   []POp  `json:"alt_ops,omitempty"` // patch: ops of the odd rounds (toggle)
	Rounds   int    `json:"rounds,omitempty"`  // patch: the request is repeated Rounds times back to back (0/1 = once)
	Cond     *PCond `json:"cond,omitempty"`
	ExpSec   int    `json:"exp_sec,omitempty"`   // patch: Meta.SetExpiredAt, set: ExpiredAt (seconds relative; 0 = untouched)
	CreSec   int    `json:"cre_sec,omitempty"`   // set: CreatedAt (seconds relative; 0 = untouched)
	ClearExp bool   `json:"clear_exp,omitempty"` // patch: Meta.ClearExpiredAt — the record never expires from then on
	Body     Body   `json:"body,omitempty"`      // set
	DelayUs  int    `json:"delay_us,omitempty"`
}

type C11Scenario struct {
	Mem             bool            `json:"mem,omitempty"`               // in-memory swamp
	Reload          bool            `json:"reload,omitempty"`            // close + re-summon after seeding (records are then file-backed)
	Cold            bool            `json:"cold,omitempty"`              // no warm-up: the first build of every index / bucket races the concurrent phase
	ColdIndexForced bool            `json:"cold_index_forced,omitempty"` // witness only: keep the order indexes cold even while index-visible-before-built is open
	Recs            []C11Rec        `json:"recs"`
	PreDeletes      []int           `json:"pre_deletes,omitempty"` // deleted (acknowledged) before the concurrent phase
	Claimers        []C11Claimer    `json:"claimers"`
	Mutators        []C11Mutator    `json:"mutators,omitempty"`
	Plan            []vsched.Action `json:"plan,omitempty"`
}

var (
	statusDomain = []string{"ready", "held", "done", "leased", "anchor"}
	anchorBody   = Body{Status: "anchor", Owner: "anchor", N: -1}
	anchorKeys   = []string{"zz-anchor-1", "zz-anchor-2"}
)

func keyOf(i int) string { return fmt.Sprintf("k%03d", i) }

// open findings steer the main generator
type c11Open struct {
	deadlock, nonAtomic, stale, gap, resave, emptyCand, reindexDup, sortRace, halfBuilt bool
}

func c11OpenNow() c11Open {
	return c11Open{
		deadlock:   pbt.Open("C11", "shift-vs-guard-holder-deadlock"),
		nonAtomic:  pbt.Open("C11", "shift-removal-not-atomic"),
		stale:      pbt.Open("C11", "stale-candidate-keyset"),
		gap:        pbt.Open("C11", "patch-expired-select-apply-gap"),
		resave:     pbt.Open("C11", "patch-expired-resaves-removed-record"),
		emptyCand:  pbt.Open("C11", "empty-candidate-set-matches-all"),
		reindexDup: pbt.Open("C11", "reindex-duplicates-order-entry"),
		sortRace:   pbt.Open("C11", "expiry-sort-reads-live-values"),
		halfBuilt:  pbt.Open("C11", "index-visible-before-built"),
	}
}

// ---------------------------------------------------------------------------
// generators

var c11Sites = []string{
	"beacon:ShiftMatching:Lock:e380a5",
	"beacon:ShiftMatching:ReleaseTreasureGuard:51890f",
	"beacon:ShiftExpired:Lock:e380a5",
	"beacon:ShiftExpired:ReleaseTreasureGuard:51890f",
	"beacon:SelectExpiredForPatchWithCap:Lock:e380a5",
	"beacon:ReindexExpiration:Lock:e380a5",
	"beacon:Delete:Lock:e380a5",
	"swamp:CloneAndDeleteMatchingTreasures:atomic.StoreInt64:1cc3f1",
	"swamp_patch_expired:PatchExpired:atomic.StoreInt64:1cc3f1",
	"swamp_patch_expired:applyPatchExpiredOne:StartTreasureGuard:f4a9b0",
	"swamp:deleteHandler:StartTreasureGuard:ac9b2b",
	"swamp_patch:PatchFields:StartTreasureGuard:f4a9b0",
	"gateway_shift_matching:shiftMatchingOneSwamp:BeginVigil:3b19eb",
	"gateway_patch_expired:PatchExpiredTreasures:BeginVigil:b2973a",
	"gateway_patch:patchTreasuresOneSwamp:BeginVigil:b2973a",
}

func genPlan(t *rapid.T, max int) []vsched.Action {
	n := rapid.IntRange(0, max).Draw(t, "nactions")
	var plan []vsched.Action
	for i := 0; i < n; i++ {
		a := vsched.Action{Site: rapid.SampledFrom(c11Sites).Draw(t, "site"), Hit: rapid.IntRange(0, 3).Draw(t, "hit")}
		switch rapid.IntRange(0, 3).Draw(t, "akind") {
		case 0:
			a.Kind = "gosched"
		case 1:
			a.Kind = "sleep"
			a.SleepUs = rapid.SampledFrom([]int{20, 200, 1000, 4000}).Draw(t, "us")
		default:
			a.Kind = "pause"
			a.Until = rapid.SampledFrom([]string{"mutators-done", "claimers-done", "site:swamp_patch:PatchFields:StartTreasureGuard:f4a9b0",
				"site:swamp:deleteHandler:StartTreasureGuard:ac9b2b", "site:beacon:ReindexExpiration:Lock:e380a5", "site:beacon:ShiftMatching:Lock:e380a5"}).Draw(t, "until")
			a.MaxWaitMs = rapid.SampledFrom([]int{2, 10, 40}).Draw(t, "maxwait")
			if a.Hit == 0 {
				a.Hit = 1
			}
		}
		plan = append(plan, a)
	}
	return plan
}

func genBody(t *rapid.T) Body {
	return Body{
		Status: rapid.SampledFrom([]string{"ready", "ready", "held", "done"}).Draw(t, "st"),
		Owner:  rapid.SampledFrom([]string{"none", "none", "a", "b"}).Draw(t, "ow"),
		N:      int64(rapid.IntRange(0, 20).Draw(t, "n")),
	}
}

func genExpSec(t *rapid.T, label string) int {
	switch rapid.IntRange(0, 9).Draw(t, label+"-class") {
	case 0:
		return 0
	case 1, 2, 3:
		return rapid.IntRange(600, 4000).Draw(t, label+"-future")
	default:
		return -rapid.IntRange(5, 4000).Draw(t, label+"-past")
	}
}

// genFilter draws a filter. idx(field) says whether an atom on that field may be
// rendered in its index-accelerated form (EQUAL / *_IN); readable(field) whether
// the filter may read the field at all.
func genFilter(t *rapid.T, idx func(string) bool, readable func(string) bool) *Filt {
	atom := func(label string) []Leg {
		var fields []string
		for _, f := range []string{"status", "status", "owner", "n"} {
			if readable(f) {
				fields = append(fields, f)
			}
		}
		if len(fields) == 0 {
			return nil
		}
		f := rapid.SampledFrom(fields).Draw(t, label+"-field")
		wantIdx := idx(f) && rapid.IntRange(0, 2).Draw(t, label+"-idx") > 0
		switch f {
		case "status":
			all := []string{"ready", "held", "done", "leased"}
			k := rapid.IntRange(1, 2).Draw(t, label+"-nst")
			set := map[string]bool{}
			for len(set) < k {
				set[rapid.SampledFrom(all).Draw(t, label+"-stv")] = true
			}
			var in []string
			for _, v := range all {
				if set[v] {
					in = append(in, v)
				}
			}
			if wantIdx {
				if len(in) == 1 {
					return []Leg{{Field: "status", Op: "eq", S: in[0]}}
				}
				return []Leg{{Field: "status", Op: "in", In: in}}
			}
			var legs []Leg
			for _, v := range statusDomain {
				if !set[v] {
					legs = append(legs, Leg{Field: "status", Op: "ne", S: v})
				}
			}
			return legs
		case "owner":
			v := rapid.SampledFrom([]string{"none", "a", "b", "w0", "w1"}).Draw(t, label+"-owv")
			if wantIdx {
				return []Leg{{Field: "owner", Op: "eq", S: v}}
			}
			return []Leg{{Field: "owner", Op: "ne", S: v}}
		default:
			if wantIdx {
				if rapid.Bool().Draw(t, label+"-nin") {
					return []Leg{{Field: "n", Op: "in64", In64: []int64{int64(rapid.IntRange(0, 10).Draw(t, label+"-n1")), int64(rapid.IntRange(5, 20).Draw(t, label+"-n2"))}}}
				}
				return []Leg{{Field: "n", Op: "eq", I: int64(rapid.IntRange(0, 20).Draw(t, label+"-neq"))}}
			}
			op := rapid.SampledFrom([]string{"ge", "lt", "gt", "le", "ne"}).Draw(t, label+"-nop")
			return []Leg{{Field: "n", Op: op, I: int64(rapid.IntRange(0, 20).Draw(t, label+"-nv"))}}
		}
	}
	disj := func(f *Filt, legs []Leg) {
		if len(legs) == 1 {
			f.Legs = append(f.Legs, legs[0])
		} else if len(legs) > 1 {
			f.Subs = append(f.Subs, Filt{Legs: legs})
		}
	}
	var f Filt
	switch rapid.IntRange(0, 5).Draw(t, "fshape") {
	case 0, 1, 2: // AND of 1..3 atoms
		k := rapid.IntRange(1, 3).Draw(t, "fk")
		for i := 0; i < k; i++ {
			f.Legs = append(f.Legs, atom(fmt.Sprintf("a%d", i))...)
		}
	case 3: // OR of two atoms
		f.Or = true
		disj(&f, atom("o0"))
		disj(&f, atom("o1"))
	default: // AND{atom, OR{atom, atom}}
		f.Legs = append(f.Legs, atom("a0")...)
		var o Filt
		o.Or = true
		disj(&o, atom("o0"))
		disj(&o, atom("o1"))
		if len(o.Legs)+len(o.Subs) > 0 {
			f.Subs = append(f.Subs, o)
		}
	}
	if len(f.Legs)+len(f.Subs) == 0 {
		return nil
	}
	return &f
}

// excludeAnchor makes sure a shift-matching filter can never match the anchor
// records (they keep the swamp from being auto-destroyed when it runs empty).
func excludeAnchor(f *Filt) *Filt {
	if f == nil {
		return &Filt{Legs: []Leg{{Field: "n", Op: "ge", I: 0}}}
	}
	if !evalFilt(f, anchorBody) {
		return f
	}
	if !f.Or {
		f.Legs = append(f.Legs, Leg{Field: "n", Op: "ge", I: 0})
		return f
	}
	return &Filt{Legs: []Leg{{Field: "n", Op: "ge", I: 0}}, Subs: []Filt{*f}}
}

type c11Mode int

const (
	modeMain  c11Mode = iota // triggers of open findings excluded by construction
	modeMixed                // full domain except what would hang the process
)

func genC11(mode c11Mode, open c11Open) func(t *rapid.T) C11Scenario {
	// forced schedules of repaired findings are regression inputs of the main generator
	var forced []func(*rapid.T) C11Scenario
	forced = append(forced, genC11EmptyCand) // fixed adbe0da
	forced = append(forced, genC11WindowGap) // never a finding on HEAD: the window is re-checked under the lock
	if !open.nonAtomic {
		forced = append(forced, genC11NonAtomic)
	}
	if !open.stale {
		forced = append(forced, genC11Stale)
	}
	if !open.gap {
		forced = append(forced, genC11Gap)
	}
	if !open.resave {
		forced = append(forced, genC11Resave)
	}
	if !open.reindexDup {
		forced = append(forced, genC11ReindexDup)
	}
	if !open.halfBuilt {
		forced = append(forced, genC11HalfBuilt)
	}
	return func(t *rapid.T) C11Scenario {
		if k := rapid.IntRange(0, 39).Draw(t, "forced-regression"); k < len(forced) {
			return forced[k](t)
		}
		var s C11Scenario
		s.Mem = rapid.IntRange(0, 3).Draw(t, "mem") == 0
		s.Reload = !s.Mem && rapid.IntRange(0, 2).Draw(t, "reload") == 0
		s.Cold = rapid.IntRange(0, 2).Draw(t, "cold") == 0
		nrec := rapid.IntRange(5, 60).Draw(t, "nrec")
		if rapid.IntRange(0, 2).Draw(t, "small") > 0 {
			nrec = 5 + nrec%16
		}
		for i := 0; i < nrec; i++ {
			s.Recs = append(s.Recs, C11Rec{Exp: genExpSec(t, "exp"), Cre: -rapid.IntRange(4100, 8000).Draw(t, "cre"), B: genBody(t)})
		}
		keyIdx := rapid.IntRange(0, nrec-1)

		strict := mode == modeMain
		// which body fields mutators may write (decided first: filters depend on it)
		mutField := map[string]bool{}
		for _, f := range []string{"status", "owner", "n"} {
			mutField[f] = rapid.IntRange(0, 9).Draw(t, "mutfield-"+f) < 6
		}
		allMut := mutField["status"] && mutField["owner"] && mutField["n"]

		// claimers
		nc := rapid.IntRange(2, 5).Draw(t, "nclaimers")
		kinds := make([]string, nc)
		hasPE, hasShift := false, false
		for i := range kinds {
			kinds[i] = rapid.SampledFrom([]string{"se", "sm", "sm", "pe", "pe"}).Draw(t, "ckind")
			if kinds[i] == "pe" {
				hasPE = true
			} else {
				hasShift = true
			}
		}
		if strict && (open.resave || open.nonAtomic) && hasPE && hasShift {
			// PatchExpired re-indexes what it selected without checking that it still exists, and a
			// record a Shift* has handed out stays visible to it until the shift's deferred removal:
			// no remover (Shift*, Delete) next to a PatchExpired while one of those findings is open
			keepPE := kinds[0] == "pe"
			for i := range kinds {
				if keepPE {
					kinds[i] = "pe"
				} else if kinds[i] == "pe" {
					kinds[i] = rapid.SampledFrom([]string{"se", "sm"}).Draw(t, "ckind-repl")
				}
			}
			hasPE, hasShift = keepPE, !keepPE
		}
		// fields written by claimers themselves (pe ops)
		written := map[string]bool{}
		for f, v := range mutField {
			written[f] = v
		}
		peOps := make([][]POp, nc)
		for i, k := range kinds {
			if k != "pe" {
				continue
			}
			ops := []POp{{Kind: "set-owner", S: fmt.Sprintf("w%d", i)}}
			if rapid.Bool().Draw(t, "pe-setstatus") {
				ops = append(ops, POp{Kind: "set-status", S: "leased"})
			}
			if rapid.IntRange(0, 2).Draw(t, "pe-inc") == 0 {
				ops = append(ops, POp{Kind: "inc-n", I: int64(rapid.IntRange(1, 3).Draw(t, "pe-incv"))})
			}
			peOps[i] = ops
			for f := range opsTouch(ops) {
				written[f] = true
			}
		}
		idxOK := func(f string) bool { return !(strict && open.stale && written[f]) }
		smIdxOK := func(f string) bool { return idxOK(f) && !(strict && open.emptyCand) }
		anyField := func(string) bool { return true }
		peReadable := func(f string) bool { return !(strict && open.gap && mutField[f]) }

		// the beacon all Shift* claimers share when lock-order / cross-index findings are open
		shareBeacon := hasShift && (open.deadlock || (strict && open.nonAtomic))
		sharedIndex, sharedDesc := "", false
		for i, k := range kinds {
			c := C11Claimer{Kind: k, DelayUs: rapid.SampledFrom([]int{0, 0, 30, 200, 1000}).Draw(t, "cdelay")}
			c.HowMany = int32(rapid.SampledFrom([]int{0, 1, 2, 3, 5, 8}).Draw(t, "howmany"))
			switch k {
			case "se":
			case "sm":
				c.Index = rapid.SampledFrom([]string{"key", "exp", "cre"}).Draw(t, "index")
				c.Desc = rapid.IntRange(0, 2).Draw(t, "desc") == 0
				c.MaxResults = int32(rapid.SampledFrom([]int{0, 0, 1, 2, 4}).Draw(t, "maxres"))
				if rapid.IntRange(0, 4).Draw(t, "hasfilter") > 0 {
					c.Filter = genFilter(t, smIdxOK, anyField)
				}
				if rapid.IntRange(0, 2).Draw(t, "window") == 0 {
					c.From = -rapid.IntRange(100, 8000).Draw(t, "from")
					if rapid.Bool().Draw(t, "hasto") {
						c.To = c.From + rapid.IntRange(100, 9000).Draw(t, "span")
						if c.To == 0 {
							c.To = 1
						}
					}
				}
			case "pe":
				c.Ops = peOps[i]
				if rapid.IntRange(0, 4).Draw(t, "pe-hasfilter") > 1 {
					c.Filter = genFilter(t, idxOK, peReadable)
				}
				if rapid.IntRange(0, 2).Draw(t, "pe-cond") == 0 {
					switch rapid.IntRange(0, 2).Draw(t, "pe-condk") {
					case 0:
						c.Cond = &PCond{Field: "status", Op: "ne", S: rapid.SampledFrom([]string{"done", "held", "leased"}).Draw(t, "pe-condv")}
					case 1:
						c.Cond = &PCond{Field: "n", Op: "lt", I: int64(rapid.IntRange(3, 20).Draw(t, "pe-condn"))}
					default:
						c.Cond = &PCond{Field: "owner", Op: "eq", S: "none"}
					}
				}
				if rapid.IntRange(0, 3).Draw(t, "pe-lease") > 0 {
					c.Lease = rapid.IntRange(600, 4000).Draw(t, "pe-leasev")
				}
			}
			s.Claimers = append(s.Claimers, c)
		}
		// unify the Shift* beacons when required
		if shareBeacon {
			for _, c := range s.Claimers {
				if c.Kind == "se" || (strict && open.nonAtomic && hasPE) {
					sharedIndex, sharedDesc = "exp", false
					break
				}
			}
			if sharedIndex == "" {
				for _, c := range s.Claimers {
					if c.Kind == "sm" {
						sharedIndex, sharedDesc = c.Index, c.Desc
						break
					}
				}
			}
			for i := range s.Claimers {
				c := &s.Claimers[i]
				if c.Kind == "sm" {
					c.Index, c.Desc = sharedIndex, sharedDesc
				}
				if c.Kind == "pe" && open.deadlock && sharedIndex == "exp" {
					c.Lease = 0 // an expiry re-index under the guard against a Shift* on an expiry beacon
				}
			}
		}
		for i := range s.Claimers {
			c := &s.Claimers[i]
			if c.Kind == "sm" {
				if c.Index == "key" {
					c.From, c.To = 0, 0
				}
				c.Filter = excludeAnchor(c.Filter)
			}
		}

		// mutators
		nm := rapid.IntRange(0, 3).Draw(t, "nmutators")
		for i := 0; i < nm; i++ {
			m := C11Mutator{DelayUs: rapid.SampledFrom([]int{0, 0, 30, 200, 1000}).Draw(t, "mdelay")}
			m.Kind = rapid.SampledFrom([]string{"patch", "patch", "patch", "set", "delete"}).Draw(t, "mkind")
			nk := rapid.IntRange(1, 6).Draw(t, "mnkeys")
			seen := map[int]bool{}
			for j := 0; j < nk; j++ {
				k := keyIdx.Draw(t, "mkey")
				if !seen[k] {
					seen[k] = true
					m.Keys = append(m.Keys, k)
				}
			}
			expOK := !(open.deadlock && hasShift) && !(strict && (open.gap || open.reindexDup) && hasPE)
			switch m.Kind {
			case "patch":
				var cand []POp
				if mutField["status"] {
					cand = append(cand, POp{Kind: "set-status", S: rapid.SampledFrom([]string{"ready", "held", "done"}).Draw(t, "mst")})
				}
				if mutField["owner"] {
					cand = append(cand, POp{Kind: "set-owner", S: rapid.SampledFrom([]string{"a", "b", "none"}).Draw(t, "mow")})
				}
				if mutField["n"] {
					cand = append(cand, POp{Kind: "inc-n", I: int64(rapid.IntRange(1, 4).Draw(t, "minc"))})
				}
				for _, o := range cand {
					if rapid.IntRange(0, 2).Draw(t, "mop-keep") > 0 {
						m.Ops = append(m.Ops, o)
					}
				}
				if len(m.Ops) == 0 && len(cand) > 0 {
					m.Ops = cand[:1]
				}
				if rapid.IntRange(0, 2).Draw(t, "mcond") == 0 {
					m.Cond = &PCond{Field: "status", Op: rapid.SampledFrom([]string{"eq", "ne"}).Draw(t, "mcondop"), S: rapid.SampledFrom([]string{"ready", "held", "done", "leased"}).Draw(t, "mcondv")}
				}
				if rapid.IntRange(0, 2).Draw(t, "mrounds") == 0 {
					// hammer the same records several times, toggling the written status
					m.Rounds = rapid.IntRange(2, 4).Draw(t, "mroundsv")
					for _, o := range m.Ops {
						if o.Kind == "set-status" {
							m.AltOps = append(m.AltOps, POp{Kind: "set-status", S: rapid.SampledFrom([]string{"ready", "held", "done"}).Draw(t, "maltst")})
						} else {
							m.AltOps = append(m.AltOps, o)
						}
					}
				}
				if expOK && rapid.IntRange(0, 3).Draw(t, "mexp") == 0 {
					if rapid.IntRange(0, 2).Draw(t, "mclear") == 0 {
						// clear the expiry ("never expires"), with or without body ops
						m.ClearExp = true
						if rapid.Bool().Draw(t, "mclear-noops") {
							m.Ops, m.AltOps, m.Rounds = nil, nil, 0
						}
					} else {
						m.ExpSec = genExpSec(t, "mexpv")
					}
				}
				if len(m.Ops) == 0 && !m.changesExp() {
					continue // nothing this mutator may do
				}
			case "set":
				if !allMut && strict {
					continue // a Set rewrites every field
				}
				m.Keys = m.Keys[:1]
				m.Body = genBody(t)
				if expOK && rapid.Bool().Draw(t, "sexp") {
					m.ExpSec = genExpSec(t, "sexpv")
				}
				if rapid.IntRange(0, 3).Draw(t, "scre") == 0 {
					m.CreSec = -rapid.IntRange(100, 9000).Draw(t, "screv") // moves the record inside the CREATION_TIME index
				}
			case "delete":
				conc := !((open.deadlock || (strict && open.nonAtomic)) && hasShift) && !(strict && open.resave && hasPE)
				if !conc {
					// keep the acknowledged delete, but before the concurrent phase
					for _, k := range m.Keys {
						s.PreDeletes = append(s.PreDeletes, k)
					}
					continue
				}
			}
			s.Mutators = append(s.Mutators, m)
		}
		if rapid.IntRange(0, 3).Draw(t, "predel") == 0 {
			s.PreDeletes = append(s.PreDeletes, keyIdx.Draw(t, "predelkey"))
		}
		s.PreDeletes = dedupInts(s.PreDeletes)
		s.Plan = genPlan(t, 4)
		return s
	}
}

func dedupInts(xs []int) []int {
	seen := map[int]bool{}
	var out []int
	for _, x := range xs {
		if !seen[x] {
			seen[x] = true
			out = append(out, x)
		}
	}
	return out
}

// ---------------------------------------------------------------------------
// execution

type claimRes struct {
	call, ret int64
	err       error
	nilResp   bool
	trs       []*hydrapb.Treasure               // se, sm
	pes       []*hydrapb.PatchedExpiredTreasure // pe
}

type mutRes struct {
	call, ret int64
	err       error
	nilResp   bool
	patch     []*hydrapb.PatchResult
	keyst     []*hydrapb.KeyStatusPair
	more      []mutRes // further rounds of a repeated patch
}

// changesExp: the mutator moves or clears ExpiredAt.
func (m C11Mutator) changesExp() bool { return m.ExpSec != 0 || m.ClearExp }

func (m C11Mutator) roundOps(r int) []POp {
	if r%2 == 1 && len(m.AltOps) > 0 {
		return m.AltOps
	}
	return m.Ops
}

func indexType(s string) hydrapb.IndexType_Type {
	switch s {
	case "exp":
		return hydrapb.IndexType_EXPIRATION_TIME
	case "cre":
		return hydrapb.IndexType_CREATION_TIME
	}
	return hydrapb.IndexType_KEY
}

func orderType(desc bool) hydrapb.OrderType_Type {
	if desc {
		return hydrapb.OrderType_DESC
	}
	return hydrapb.OrderType_ASC
}

func planIndexed(f *Filt) bool {
	if f == nil {
		return false
	}
	return gateway.PlanFilter(f.proto()).Mode != gateway.PlanModeBypass
}

func (c C11Claimer) describe(i int) string {
	switch c.Kind {
	case "se":
		return fmt.Sprintf("claimer#%d ShiftExpired(HowMany=%d)", i, c.HowMany)
	case "sm":
		return fmt.Sprintf("claimer#%d ShiftMatching(index=%s desc=%v HowMany=%d MaxResults=%d filter=[%s] window=[%d,%d))", i, c.Index, c.Desc, c.HowMany, c.MaxResults, c.Filter, c.From, c.To)
	}
	return fmt.Sprintf("claimer#%d PatchExpired(HowMany=%d filter=[%s] cond=[%s] ops=%v lease=%d)", i, c.HowMany, c.Filter, c.Cond, c.Ops, c.Lease)
}

func runC11(s C11Scenario) pbt.Outcome {
	o := runC11Inner(s)
	if o.Fail != "" {
		o.Classes = append(o.Classes, "failed:"+o.Shape)
	}
	return o
}

func runC11Inner(s C11Scenario) pbt.Outcome {
	e := getEnv()
	if poisoned {
		return pbt.Outcome{Skip: true}
	}
	sn := freshSwamp("c11-", s.Mem)
	defer e.destroy(sn)
	t0 := time.Now()
	wall0 := t0.UnixNano()
	abs := func(sec int) int64 {
		if sec == 0 {
			return 0
		}
		return wall0 + int64(sec)*1e9
	}
	isExpired := func(exp int64) bool { return exp != 0 && exp < wall0+300e9 }
	panics0 := e.r.Logs.Panics()

	// --- seed
	init := map[string]kstate{}
	var recs []seedRec
	for i, r := range s.Recs {
		k := keyOf(i)
		recs = append(recs, seedRec{Key: k, Body: r.B, Exp: abs(r.Exp), Created: abs(r.Cre)})
		init[k] = kstate{Exists: true, Body: r.B, Exp: abs(r.Exp), Cre: abs(r.Cre)}
	}
	for _, k := range anchorKeys {
		recs = append(recs, seedRec{Key: k, Body: anchorBody})
	}
	if err := e.seed(sn, recs); err != nil {
		return pbt.Failf("harness", "seed: %v", err)
	}
	if s.Reload {
		e.r.CloseSwamp(sn)
	}
	isl := rig.Island(sn)
	for _, i := range s.PreDeletes {
		k := keyOf(i)
		resp, err := e.r.G.Delete(e.ctx, &hydrapb.DeleteRequest{Swamps: []*hydrapb.DeleteRequest_SwampKeys{{IslandID: isl, SwampName: sn, Keys: []string{k}}}})
		if err != nil || resp == nil || len(resp.Responses) != 1 || len(resp.Responses[0].KeyStatuses) != 1 || resp.Responses[0].KeyStatuses[0].Status != hydrapb.Status_DELETED {
			return pbt.Failf("harness", "pre-delete of %s: %v %v", k, resp, err)
		}
		st := init[k]
		st.Exists = false
		init[k] = st
	}
	// --- warm-up (unless the scenario is cold): build every index and bucket before the concurrent phase.
	// Cold scenarios leave the first builds to the racing requests themselves.
	if !s.Cold || (c11OpenNow().halfBuilt && !s.ColdIndexForced) {
		// (open finding index-visible-before-built: a claim racing the first build of its index walks it half-built)
		for _, it := range []hydrapb.IndexType_Type{hydrapb.IndexType_KEY, hydrapb.IndexType_EXPIRATION_TIME, hydrapb.IndexType_CREATION_TIME} {
			if _, err := e.r.G.GetByIndex(e.ctx, &hydrapb.GetByIndexRequest{IslandID: isl, SwampName: sn, IndexType: it, Limit: 1}); err != nil {
				return pbt.Failf("harness", "warm-up GetByIndex: %v", err)
			}
		}
	}
	if !s.Cold {
		// (buckets are built through PatchExpired: its selection predicate rejects every record
		// when the looked-up value is absent, so the warm-up itself changes nothing)
		for _, l := range []Leg{{Field: "status", Op: "eq", S: "__none__"}, {Field: "owner", Op: "eq", S: "__none__"}, {Field: "n", Op: "eq", I: -777}} {
			resp, err := e.r.G.PatchExpiredTreasures(e.ctx, &hydrapb.PatchExpiredTreasuresRequest{IslandID: isl, SwampName: sn, HowMany: 1,
				Ops: opsProto([]POp{{Kind: "set-owner", S: "warm-up"}}), Filters: (&Filt{Legs: []Leg{l}}).proto()})
			if err != nil || resp == nil || len(resp.Patched) != 0 {
				return pbt.Failf("harness", "warm-up PatchExpired: %v %v", resp, err)
			}
		}
	}

	// --- concurrent phase
	cres := make([]claimRes, len(s.Claimers))
	mres := make([]mutRes, len(s.Mutators))
	since := func() int64 { return int64(time.Since(t0)) }
	vsched.Activate(s.Plan, false)
	active := true
	defer func() {
		if active {
			vsched.Deactivate()
		}
	}()
	start := make(chan struct{})
	var cwg, mwg sync.WaitGroup
	for i := range s.Claimers {
		cwg.Add(1)
		go func(i int) {
			defer cwg.Done()
			c := s.Claimers[i]
			<-start
			if c.DelayUs > 0 {
				time.Sleep(time.Duration(c.DelayUs) * time.Microsecond)
			}
			r := &cres[i]
			r.call = since()
			switch c.Kind {
			case "se":
				resp, err := e.r.G.ShiftExpiredTreasures(e.ctx, &hydrapb.ShiftExpiredTreasuresRequest{IslandID: isl, SwampName: sn, HowMany: c.HowMany})
				r.err, r.nilResp, r.trs = err, resp == nil, resp.GetTreasures()
			case "sm":
				req := &hydrapb.ShiftMatchingTreasuresRequest{IslandID: isl, SwampName: sn, IndexType: indexType(c.Index), OrderType: orderType(c.Desc),
					HowMany: c.HowMany, MaxResults: c.MaxResults, Filters: c.Filter.proto(), FromTime: nanosToTS(abs(c.From)), ToTime: nanosToTS(abs(c.To))}
				resp, err := e.r.G.ShiftMatchingTreasures(e.ctx, req)
				r.err, r.nilResp, r.trs = err, resp == nil, resp.GetTreasures()
			case "pe":
				req := &hydrapb.PatchExpiredTreasuresRequest{IslandID: isl, SwampName: sn, HowMany: c.HowMany, Ops: opsProto(c.Ops), Condition: c.Cond.proto(), Filters: c.Filter.proto()}
				if c.Lease != 0 {
					req.Meta = &hydrapb.PatchMeta{SetExpiredAt: nanosToTS(abs(c.Lease))}
				}
				resp, err := e.r.G.PatchExpiredTreasures(e.ctx, req)
				r.err, r.nilResp, r.pes = err, resp == nil, resp.GetPatched()
			}
			r.ret = since()
			vsched.Signal(fmt.Sprintf("claimer-%d-done", i))
		}(i)
	}
	for i := range s.Mutators {
		mwg.Add(1)
		go func(i int) {
			defer mwg.Done()
			m := s.Mutators[i]
			<-start
			if m.DelayUs > 0 {
				time.Sleep(time.Duration(m.DelayUs) * time.Microsecond)
			}
			r := &mres[i]
			r.call = since()
			switch m.Kind {
			case "patch":
				rounds := m.Rounds
				if rounds < 1 {
					rounds = 1
				}
				for rd := 0; rd < rounds; rd++ {
					var ps []*hydrapb.TreasurePatch
					for _, k := range m.Keys {
						ps = append(ps, &hydrapb.TreasurePatch{Key: keyOf(k), Ops: opsProto(m.roundOps(rd)), Condition: m.Cond.proto()})
					}
					req := &hydrapb.PatchTreasuresRequest{IslandID: isl, SwampName: sn, Patches: ps}
					if m.ClearExp {
						req.Meta = &hydrapb.PatchMeta{ClearExpiredAt: true}
					} else if m.ExpSec != 0 {
						req.Meta = &hydrapb.PatchMeta{SetExpiredAt: nanosToTS(abs(m.ExpSec))}
					}
					cur := r
					if rd > 0 {
						r.more = append(r.more, mutRes{call: since()})
						cur = &r.more[len(r.more)-1]
					}
					resp, err := e.r.G.PatchTreasures(e.ctx, req)
					cur.err, cur.nilResp, cur.patch = err, resp == nil, resp.GetResults()
					cur.ret = since()
				}
			case "set":
				kv := &hydrapb.KeyValuePair{Key: keyOf(m.Keys[0]), BytesVal: wrapBody(encodeBody(m.Body)), ExpiredAt: nanosToTS(abs(m.ExpSec)), CreatedAt: nanosToTS(abs(m.CreSec))}
				resp, err := e.r.G.Set(e.ctx, &hydrapb.SetRequest{Swamps: []*hydrapb.SwampRequest{{IslandID: isl, SwampName: sn, KeyValues: []*hydrapb.KeyValuePair{kv}, Overwrite: true}}})
				r.err, r.nilResp = err, resp == nil
				if resp != nil && len(resp.Swamps) == 1 {
					r.keyst = resp.Swamps[0].KeysAndStatuses
				}
			case "delete":
				var ks []string
				for _, k := range m.Keys {
					ks = append(ks, keyOf(k))
				}
				resp, err := e.r.G.Delete(e.ctx, &hydrapb.DeleteRequest{Swamps: []*hydrapb.DeleteRequest_SwampKeys{{IslandID: isl, SwampName: sn, Keys: ks}}})
				r.err, r.nilResp = err, resp == nil
				if resp != nil && len(resp.Responses) == 1 {
					r.keyst = resp.Responses[0].KeyStatuses
				}
			}
			if r.ret == 0 {
				r.ret = since()
			}
		}(i)
	}
	close(start)
	mdone := make(chan struct{})
	go func() { mwg.Wait(); vsched.Signal("mutators-done"); close(mdone) }()
	cdone := make(chan struct{})
	go func() { cwg.Wait(); vsched.Signal("claimers-done"); close(cdone) }()
	watchdog := time.After(20 * time.Second)
	hung := false
	for _, ch := range []chan struct{}{mdone, cdone} {
		select {
		case <-ch:
		case <-watchdog:
			hung = true
		}
		if hung {
			break
		}
	}
	rep := vsched.Deactivate()
	active = false
	if hung {
		// the plan is released; give everybody a last chance, then look for the witness
		select {
		case <-mdone:
		case <-time.After(2 * time.Second):
		}
		select {
		case <-cdone:
			select {
			case <-mdone:
				hung = false
			default:
			}
		case <-time.After(2 * time.Second):
		}
	}
	if hung {
		g1 := goroutinesIn("guard.(*guard).StartTreasureGuard", "sync.Cond.Wait")
		b1 := goroutinesIn("beacon.(*beacon)", "sync.RWMutex")
		b1 += goroutinesIn("beacon.(*beacon)", "sync.Mutex")
		time.Sleep(300 * time.Millisecond)
		g2 := goroutinesIn("guard.(*guard).StartTreasureGuard", "sync.Cond.Wait")
		b2 := goroutinesIn("beacon.(*beacon)", "sync.RWMutex") + goroutinesIn("beacon.(*beacon)", "sync.Mutex")
		poisoned = true
		if g1 > 0 && g2 > 0 && b1 > 0 && b2 > 0 {
			return pbt.Failf("deadlock", "requests never return: %d goroutine(s) wait for a record guard inside a beacon scan (beacon mutex held) while %d goroutine(s) hold a record guard and wait for a beacon mutex — lock-order inversion; plan fired %v", g2, b2, rep.Fired)
		}
		return pbt.Failf("hang", "requests did not return within 24 s (guard waiters %d, beacon mutex waiters %d); plan fired %v", g2, b2, rep.Fired)
	}
	if time.Since(t0) > 200*time.Second {
		return pbt.Outcome{Skip: true}
	}
	if p := e.r.Logs.Panics(); p != panics0 {
		return pbt.Failf("panic", "%d handler panic(s) logged during the case: %v", p-panics0, e.r.Logs.Recent(3))
	}

	// --- quiescent reads
	all, err := e.getAll(sn)
	if err != nil {
		return pbt.Failf("harness", "final GetAll: %v", err)
	}
	if all == nil {
		return pbt.Failf("swamp-gone", "the swamp no longer exists although the anchor records can never be claimed")
	}
	ghosts := map[string][]string{}
	for _, it := range []hydrapb.IndexType_Type{hydrapb.IndexType_KEY, hydrapb.IndexType_EXPIRATION_TIME, hydrapb.IndexType_CREATION_TIME} {
		for _, ot := range []hydrapb.OrderType_Type{hydrapb.OrderType_ASC, hydrapb.OrderType_DESC} {
			resp, err := e.r.G.GetByIndex(e.ctx, &hydrapb.GetByIndexRequest{IslandID: isl, SwampName: sn, IndexType: it, OrderType: ot, KeysOnly: true})
			if err != nil || resp == nil {
				return pbt.Failf("harness", "final GetByIndex(%v,%v): %v", it, ot, err)
			}
			for _, tr := range resp.Treasures {
				if _, ok := all[tr.Key]; !ok {
					ghosts[tr.Key] = append(ghosts[tr.Key], fmt.Sprintf("%v/%v", it, ot))
				}
			}
		}
	}

	// --- judge
	return judgeC11(s, init, cres, mres, all, ghosts, abs, isExpired, rep)
}

func judgeC11(s C11Scenario, init map[string]kstate, cres []claimRes, mres []mutRes, all map[string]*hydrapb.Treasure, ghosts map[string][]string,
	abs func(int) int64, isExpired func(int64) bool, rep vsched.Report) pbt.Outcome {

	var out pbt.Outcome
	cls := map[string]bool{}
	events := map[string][]*event{}
	indexed := map[*event]bool{}
	critNow := map[*event]func(Body, int64, int64) bool{}
	neverCand := map[*event]bool{}
	add := func(k string, ev *event) { events[k] = append(events[k], ev) }

	for _, k := range anchorKeys {
		tr, ok := all[k]
		if !ok {
			return pbt.Failf("criteria", "anchor record %s (status=anchor, no ExpiredAt/CreatedAt; matched by no request) is gone", k)
		}
		if b, err := decodeWrapped(tr.BytesVal); err != nil || b != anchorBody {
			return pbt.Failf("criteria", "anchor record %s was modified: %v %v", k, b, err)
		}
	}

	// Keys a PatchTreasures / Set mutator targets may be re-inserted by that write after a claim
	// removed them (outside C11, see the model). An insert appends to an index and sorts it in a
	// second critical section, so such a key can transiently sit out of place: the order clause
	// is judged on the other keys only.
	writerKeys := map[string]bool{}
	for _, m := range s.Mutators {
		if m.Kind == "patch" || m.Kind == "set" {
			for _, k := range m.Keys {
				writerKeys[keyOf(k)] = true
			}
		}
	}
	// open finding expiry-sort-reads-live-values: a sort of the expiry index that overlaps a guard
	// holder changing some record's ExpirationTime (lease, expiry slide, removal of a file-backed
	// record) can leave OTHER records out of order; scenarios with such a trigger do not judge the
	// order clause on the expiry index while the finding is open
	expOrderJudged := true
	if c11OpenNow().sortRace {
		flip := false
		for _, c := range s.Claimers {
			if c.Lease != 0 || (s.Reload && c.Kind != "pe") {
				flip = true
			}
		}
		for _, m := range s.Mutators {
			if m.changesExp() || (s.Reload && m.Kind == "delete") {
				flip = true
			}
		}
		if flip {
			expOrderJudged = false
			cls["expiry-order-not-judged(open finding)"] = true
		}
	}
	// expiry changers (for the order check on the expiry index)
	expTouched := map[string]bool{}
	for _, m := range s.Mutators {
		if m.changesExp() {
			for _, k := range m.Keys {
				expTouched[keyOf(k)] = true
			}
		}
	}
	for i, c := range s.Claimers {
		if c.Kind == "pe" && c.Lease != 0 {
			for _, p := range cres[i].pes {
				expTouched[p.Key] = true
			}
		}
	}

	for i, c := range s.Claimers {
		r := cres[i]
		who := c.describe(i)
		if r.err != nil {
			return pbt.Failf("rpc-error", "%s failed: %v", who, r.err)
		}
		if r.nilResp {
			return pbt.Failf("panic", "%s returned (nil, nil)", who)
		}
		isIdx := planIndexed(c.Filter)
		if isIdx {
			cls["has-indexable-filter"] = true
		}
		c := c
		switch c.Kind {
		case "se", "sm":
			limit := int(c.HowMany)
			if c.Kind == "sm" && c.MaxResults > 0 && (limit == 0 || int(c.MaxResults) < limit) {
				limit = int(c.MaxResults)
			}
			if limit > 0 && len(r.trs) > limit {
				return pbt.Failf("too-many", "%s returned %d records, more than requested (%d)", who, len(r.trs), limit)
			}
			crit := func(b Body, exp, cre int64) (bool, string) {
				if c.Kind == "se" {
					if !isExpired(exp) {
						return false, fmt.Sprintf("record is not expired (ExpiredAt offset %+.0fs)", float64(exp-abs(1)+1e9)/1e9)
					}
					return true, ""
				}
				if !evalFilt(c.Filter, b) {
					return false, fmt.Sprintf("body %v does not satisfy the filter [%s]", b, c.Filter)
				}
				if c.Index != "key" {
					at := exp
					if c.Index == "cre" {
						at = cre
					}
					if c.From != 0 && at < abs(c.From) {
						return false, "index timestamp is before FromTime"
					}
					if c.To != 0 && at >= abs(c.To) {
						return false, "index timestamp is not before ToTime"
					}
				}
				return true, ""
			}
			seen := map[string]bool{}
			var prevKey string
			var prevAttr int64
			havePrev := false
			for _, tr := range r.trs {
				if seen[tr.Key] {
					return pbt.Failf("double-hand-out", "%s returned key %s twice in one response", who, tr.Key)
				}
				seen[tr.Key] = true
				if _, ok := init[tr.Key]; !ok {
					return pbt.Failf("criteria", "%s returned key %s which matches no request criteria (anchor or unknown key)", who, tr.Key)
				}
				ev := &event{Kind: evShift, Actor: who, Call: r.call, Ret: r.ret, RetExp: tsToNanos(tr.ExpiredAt), RetCre: tsToNanos(tr.CreatedAt)}
				if b, err := decodeWrapped(tr.BytesVal); err != nil {
					ev.RetBodyErr = err.Error()
				} else {
					ev.RetBody = b
				}
				ev.Crit = func(st kstate) (bool, string) { return crit(st.Body, st.Exp, st.Cre) }
				critNow[ev] = func(b Body, exp, cre int64) bool { ok, _ := crit(b, exp, cre); return ok }
				indexed[ev] = isIdx
				if isIdx {
					neverCand[ev] = !hintPossible(s, tr.Key, c.Filter, init[tr.Key].Body)
				}
				add(tr.Key, ev)
				// order of the index attribute
				exempt := false
				var attr int64
				switch {
				case c.Kind == "se" || c.Index == "exp":
					attr = ev.RetExp
					exempt = expTouched[tr.Key] || !expOrderJudged
				case c.Index == "cre":
					attr = ev.RetCre
				}
				if exempt || writerKeys[tr.Key] {
					continue
				}
				if havePrev {
					bad := false
					if c.Kind == "sm" && c.Index == "key" {
						bad = (!c.Desc && tr.Key < prevKey) || (c.Desc && tr.Key > prevKey)
					} else {
						bad = (!c.Desc && attr < prevAttr) || (c.Desc && attr > prevAttr)
					}
					if bad {
						return pbt.Failf("order", "%s returned %s after %s: not in index order", who, tr.Key, prevKey)
					}
				}
				prevKey, prevAttr, havePrev = tr.Key, attr, true
			}
			if len(r.trs) > 0 {
				cls["shift-returned"] = true
			}
		case "pe":
			if c.HowMany > 0 && len(r.pes) > int(c.HowMany) {
				return pbt.Failf("too-many", "%s returned %d entries, more than HowMany", who, len(r.pes))
			}
			seen := map[string]bool{}
			var prevExp int64
			var prevKey string
			havePrev := false
			crit := func(st kstate) (bool, string) {
				if !isExpired(st.Exp) {
					return false, "record is not expired"
				}
				if !evalFilt(c.Filter, st.Body) {
					return false, fmt.Sprintf("body %v does not satisfy the selection filter [%s]", st.Body, c.Filter)
				}
				return true, ""
			}
			for _, p := range r.pes {
				if seen[p.Key] {
					return pbt.Failf("double-hand-out", "%s lists key %s twice in one response", who, p.Key)
				}
				seen[p.Key] = true
				st0, ok := init[p.Key]
				if !ok {
					return pbt.Failf("criteria", "%s patched key %s which can never be expired (anchor or unknown key)", who, p.Key)
				}
				ev := &event{Actor: who, Call: r.call, Ret: r.ret, Ops: c.Ops, Cond: c.Cond, NewExp: abs(c.Lease), Crit: crit, RetExp: tsToNanos(p.ExpiredAt)}
				switch p.Status {
				case hydrapb.PatchResult_PATCHED:
					ev.Kind = evPEPatched
					if b, err := decodeBody(p.NewMsgpack); err != nil {
						ev.RetBodyErr = err.Error()
					} else {
						ev.RetBody = b
					}
					cls["pe-patched"] = true
				case hydrapb.PatchResult_CONDITION_NOT_MET:
					ev.Kind = evPECondFail
					cls["pe-condition-not-met"] = true
				case hydrapb.PatchResult_KEY_NOT_FOUND:
					ev.Kind = evPEGone
					cls["pe-key-not-found"] = true
				default:
					return pbt.Failf("unexpected-status", "%s: key %s status %v (%s)", who, p.Key, p.Status, p.GetError())
				}
				indexed[ev] = isIdx
				add(p.Key, ev)
				// oldest expired first, judged on records whose expiry nobody changes
				if writerKeys[p.Key] || !expOrderJudged {
					continue
				}
				if !expTouched[p.Key] || (c.Lease != 0 && !touchedByOthers(s, cres, i, p.Key)) {
					if havePrev && st0.Exp < prevExp {
						return pbt.Failf("order", "%s lists %s (ExpiredAt %d) after %s (%d): not oldest-expired-first", who, p.Key, st0.Exp, prevKey, prevExp)
					}
					prevExp, prevKey, havePrev = st0.Exp, p.Key, true
				}
			}
		}
	}

	mutatedKeys := map[string]bool{}
	for i, m := range s.Mutators {
		r := mres[i]
		who := fmt.Sprintf("mutator#%d %s%v", i, m.Kind, m.Keys)
		if r.err != nil {
			return pbt.Failf("rpc-error", "%s failed: %v", who, r.err)
		}
		if r.nilResp {
			return pbt.Failf("panic", "%s returned (nil, nil)", who)
		}
		switch m.Kind {
		case "patch":
			for rd, r := range append([]mutRes{r}, r.more...) {
				who := who
				if rd > 0 {
					who = fmt.Sprintf("%s round %d", who, rd)
					if r.err != nil {
						return pbt.Failf("rpc-error", "%s failed: %v", who, r.err)
					}
					if r.nilResp {
						return pbt.Failf("panic", "%s returned (nil, nil)", who)
					}
				}
				if len(r.patch) != len(m.Keys) {
					return pbt.Failf("harness", "%s: %d results for %d patches", who, len(r.patch), len(m.Keys))
				}
				for j, pr := range r.patch {
					ev := &event{Actor: who, Call: r.call, Ret: r.ret, Ops: m.roundOps(rd), Cond: m.Cond, NewExp: abs(m.ExpSec), ClearExp: m.ClearExp}
					if m.ClearExp {
						ev.NewExp = 0
						cls["mutator-clears-expiry"] = true
					}
					switch pr.Status {
					case hydrapb.PatchResult_PATCHED:
						ev.Kind = evMPatched
						mutatedKeys[keyOf(m.Keys[j])] = true
					case hydrapb.PatchResult_CONDITION_NOT_MET:
						ev.Kind = evMCondFail
					case hydrapb.PatchResult_KEY_NOT_FOUND:
						ev.Kind = evMNotFound
					default:
						return pbt.Failf("unexpected-status", "%s: key %s status %v (%s)", who, pr.Key, pr.Status, pr.GetError())
					}
					add(keyOf(m.Keys[j]), ev)
				}
			}
		case "set":
			if len(r.keyst) != 1 {
				return pbt.Failf("harness", "%s: unexpected Set response", who)
			}
			ev := &event{Actor: who, Call: r.call, Ret: r.ret, NewExp: abs(m.ExpSec), NewCre: abs(m.CreSec)}
			if r.keyst[0].Status == hydrapb.Status_NOT_FOUND {
				ev.Kind = evSetMiss
			} else {
				ev.Kind = evSetOK
				b := m.Body
				ev.SetTo = &b
				mutatedKeys[keyOf(m.Keys[0])] = true
			}
			add(keyOf(m.Keys[0]), ev)
		case "delete":
			if len(r.keyst) != len(m.Keys) {
				return pbt.Failf("harness", "%s: %d statuses for %d keys", who, len(r.keyst), len(m.Keys))
			}
			cls["has-concurrent-delete"] = true
			for j, ks := range r.keyst {
				ev := &event{Actor: who, Call: r.call, Ret: r.ret}
				switch ks.Status {
				case hydrapb.Status_DELETED:
					ev.Kind = evDelOK
					mutatedKeys[keyOf(m.Keys[j])] = true
				case hydrapb.Status_NOT_FOUND:
					ev.Kind = evDelMiss
				default:
					return pbt.Failf("unexpected-status", "%s: key %s status %v", who, ks.Key, ks.Status)
				}
				add(keyOf(m.Keys[j]), ev)
			}
		}
	}

	// unknown keys in the final state
	for k := range all {
		if _, ok := init[k]; !ok && k != anchorKeys[0] && k != anchorKeys[1] {
			return pbt.Failf("non-linearizable", "key %s exists at the end but was never written", k)
		}
	}

	// clause (1): a record handed out by a Shift* must not also be acknowledged as DELETED to
	// somebody else (keys that a Set / PatchTreasures may have re-created in between are not judged)
	for k, evs := range events {
		var sh, del *event
		recreate := false
		for _, ev := range evs {
			switch ev.Kind {
			case evShift:
				sh = ev
			case evDelOK:
				del = ev
			case evSetOK, evMPatched:
				recreate = true
			}
		}
		if sh != nil && del != nil && !recreate {
			o := pbt.Failf("double-hand-out", "key %s (never re-inserted) was returned by %s AND its deletion was acknowledged (DELETED) to %s. History: %s. Plan fired: %v",
				k, sh.Actor, del.Actor, describeEvents(evs), trimFired(rep.Fired))
			return o
		}
	}

	// per-key histories
	keys := make([]string, 0, len(init))
	for k := range init {
		keys = append(keys, k)
	}
	sort.Strings(keys)
	for _, k := range keys {
		fin := finalObs{Ghost: ghosts[k]}
		if tr, ok := all[k]; ok {
			fin.Present = true
			fin.Exp, fin.Cre = tsToNanos(tr.ExpiredAt), tsToNanos(tr.CreatedAt)
			if b, err := decodeWrapped(tr.BytesVal); err != nil {
				fin.BodyErr = err.Error()
			} else {
				fin.Body = b
			}
		}
		evs := events[k]
		hasClaim := false
		for _, ev := range evs {
			if ev.Kind <= evPEGone {
				hasClaim = true
			}
		}
		ok, why := linearize(init[k], evs, fin)
		ghostOnly := false
		if ok && !fin.Present && len(fin.Ghost) > 0 {
			ghostOnly = true
			ok, why = false, fmt.Sprintf("record is absent (Get) but still listed by index %v", fin.Ghost)
			hasClaim = hasClaim || removedByClaimOrDelete(evs)
		}
		if !ok {
			if !hasClaim {
				// no claim touched this key: whatever went wrong is not C11's business
				cls["anomaly-without-claim"] = true
				pbt.Note("C11", "key without claim events has a rejected history (not judged here): %s — %s", describeEvents(evs), why)
				continue
			}
			shape := classify(init[k], evs, fin, indexed, critNow, neverCand)
			if ghostOnly {
				shape = "resurrected"
			}
			if o := c11OpenNow(); shape == "stale-candidate" && !o.stale && o.gap && isPEShape(evs) {
				shape = "select-apply-gap" // the index-accelerated leg is re-checked by now; what remains is the gap
			}
			return pbt.Failf(shape, "key %s (initial %s): no order of the acknowledged operations explains the responses. Dead end — %s. History: %s. Final: present=%v body=%v ghost-in=%v. Plan fired: %v",
				k, describeState(init[k], abs), why, describeEvents(evs), fin.Present, fin.Body, fin.Ghost, trimFired(rep.Fired))
		}
	}

	// --- evidence classes and non-triviality
	overlap := false
	for i := range cres {
		for j := i + 1; j < len(cres); j++ {
			if cres[i].call <= cres[j].ret && cres[j].call <= cres[i].ret {
				overlap = true
			}
		}
	}
	candMutated := false
	multiCand := false
	for _, k := range keys {
		n := 0
		st := init[k]
		if !st.Exists {
			continue
		}
		for _, c := range s.Claimers {
			if initiallyCandidate(c, st, abs, isExpired) {
				n++
			}
		}
		if n >= 2 {
			multiCand = true
		}
		if n >= 1 && mutatedKeys[k] {
			candMutated = true
		}
	}
	kinds := map[string]bool{}
	for _, c := range s.Claimers {
		kinds[c.Kind] = true
	}
	var ks []string
	for k := range kinds {
		ks = append(ks, k)
	}
	sort.Strings(ks)
	cls["claimers:"+strings.Join(ks, "+")] = true
	if overlap {
		cls["claimers-overlap"] = true
	}
	if candMutated {
		cls["candidate-mutated"] = true
	}
	if multiCand {
		cls["record-candidate-of-2+-claimers"] = true
	}
	if len(rep.Fired) > 0 {
		cls["plan-fired"] = true
	}
	if len(s.PreDeletes) > 0 {
		cls["has-pre-delete"] = true
	}
	if s.Reload {
		cls["file-backed-records"] = true
	}
	if s.Cold {
		cls["cold-indexes-and-buckets"] = true
	}
	out.NonTrivial = overlap && candMutated
	for c := range cls {
		out.Classes = append(out.Classes, c)
	}
	sort.Strings(out.Classes)
	return out
}

func removedByClaimOrDelete(evs []*event) bool {
	for _, e := range evs {
		if e.Kind == evShift || e.Kind == evDelOK {
			return true
		}
	}
	return false
}

func touchedByOthers(s C11Scenario, cres []claimRes, self int, key string) bool {
	for _, m := range s.Mutators {
		if m.changesExp() {
			for _, k := range m.Keys {
				if keyOf(k) == key {
					return true
				}
			}
		}
	}
	for i, c := range s.Claimers {
		if i == self || c.Kind != "pe" || c.Lease == 0 {
			continue
		}
		for _, p := range cres[i].pes {
			if p.Key == key {
				return true
			}
		}
	}
	return false
}

func initiallyCandidate(c C11Claimer, st kstate, abs func(int) int64, isExpired func(int64) bool) bool {
	switch c.Kind {
	case "se":
		return isExpired(st.Exp)
	case "pe":
		return isExpired(st.Exp) && evalFilt(c.Filter, st.Body)
	}
	if !evalFilt(c.Filter, st.Body) {
		return false
	}
	at := int64(1)
	switch c.Index {
	case "exp":
		at = st.Exp
	case "cre":
		at = st.Cre
	default:
		return true
	}
	if at == 0 {
		return false
	}
	if c.From != 0 && at < abs(c.From) {
		return false
	}
	if c.To != 0 && at >= abs(c.To) {
		return false
	}
	return true
}

func describeState(st kstate, abs func(int) int64) string {
	if !st.Exists {
		return "deleted before the concurrent phase"
	}
	base := abs(1) - 1e9
	exp := "never"
	if st.Exp != 0 {
		exp = fmt.Sprintf("%+ds", (st.Exp-base)/1e9)
	}
	return fmt.Sprintf("%v expires=%s", st.Body, exp)
}

// ---------------------------------------------------------------------------
// facets

const c11Rule = "swamp with 5–60 msgpack records {status, owner, n} (ExpiredAt ≥5 s in the past / ≥600 s in the future / unset, distinct keys never re-inserted, in-memory or file-backed) + 2 anchor records no request can match; " +
	"2–5 concurrent claimers (ShiftExpired, ShiftMatching over KEY/EXPIRATION/CREATION index asc/desc with AND/OR filters in index-accelerated and plain renderings, time windows, HowMany/MaxResults, " +
	"PatchExpired with ops/condition/selection filter/lease) and 0–3 concurrent mutators (PatchTreasures batches with conditions and expiry slides, Set overwrite, Delete), optional acknowledged deletes before the race, " +
	"0–4 drawn vsched actions at the candidate-set/beacon-lock/selection-to-patch/guard sites. Oracle: per key, some real-time-respecting order of the acknowledged responses must satisfy the sequential claim specification " +
	"(claimed record exists, its body/timestamps equal the returned clone, criteria hold on it, PatchExpired NewMsgpack = ops(body), Delete acknowledged only for an existing record) and end in the state read at quiescence (Get + all six index listings); " +
	"per caller ≤ HowMany/MaxResults and index order. Non-trivial = two claimers overlap in time and a mutator changed a record that was a candidate."

func c11Excluded(facet string, o c11Open) {
	if o.deadlock {
		pbt.Excluded("C11", facet, "Delete / expiry-changing writes / other-index Shift* concurrent with a Shift* (open finding shift-vs-guard-holder-deadlock)")
	}
	if o.halfBuilt {
		pbt.Excluded("C11", facet, "first build of an order index concurrent with a claim over it: cold scenarios keep only the buckets cold (open finding index-visible-before-built)")
	}
	if o.sortRace {
		pbt.Excluded("C11", facet, "order clause on the expiry index in scenarios with a lease / expiry slide / removal of file-backed records (open finding expiry-sort-reads-live-values)")
	}
	if facet != "main" {
		return
	}
	if o.nonAtomic {
		pbt.Excluded("C11", facet, "Delete, PatchExpired or a claim over another index concurrent with a Shift* (open finding shift-removal-not-atomic)")
	}
	if o.stale {
		pbt.Excluded("C11", facet, "index-accelerated filter leg on a field that a concurrent actor writes (open finding stale-candidate-keyset)")
	}
	if o.gap {
		pbt.Excluded("C11", facet, "mutators writing a PatchExpired selection field or the expiry (open finding patch-expired-select-apply-gap)")
	}
	if o.resave {
		pbt.Excluded("C11", facet, "Delete or Shift* concurrent with PatchExpired (open finding patch-expired-resaves-removed-record)")
	}
	if o.emptyCand {
		pbt.Excluded("C11", facet, "index-accelerated ShiftMatching filters (open finding empty-candidate-set-matches-all)")
	}
	if o.reindexDup {
		pbt.Excluded("C11", facet, "expiry-changing PatchTreasures / Set concurrent with PatchExpired (open finding reindex-duplicates-order-entry)")
	}
}

func TestC11Main(t *testing.T) {
	o := c11OpenNow()
	c11Excluded("main", o)
	pbt.Main(t, pbt.Spec[C11Scenario]{
		ID: "C11", Facet: "main", Rule: c11Rule,
		Quick: 8000, Thorough: 200000,
		Gen: genC11(modeMain, o), Run: runC11,
	})
}

// hintPossible reports whether the record could at any time of the scenario have
// satisfied the index-accelerated leg(s) of f: its initial body does, or some
// actor of the scenario can write a satisfying value into the hinted field.
func hintPossible(s C11Scenario, key string, f *Filt, initBody Body) bool {
	plan := gateway.PlanFilter(f.proto())
	if plan.Mode == gateway.PlanModeBypass {
		return true
	}
	statuses := map[string]bool{initBody.Status: true}
	owners := map[string]bool{initBody.Owner: true}
	nAny := false
	ns := map[int64]bool{initBody.N: true}
	addOps := func(ops []POp) {
		for _, o := range ops {
			switch o.Kind {
			case "set-status":
				statuses[o.S] = true
			case "set-owner":
				owners[o.S] = true
			case "inc-n":
				nAny = true
			}
		}
	}
	for _, m := range s.Mutators {
		hit := false
		for _, k := range m.Keys {
			if keyOf(k) == key {
				hit = true
			}
		}
		if !hit {
			continue
		}
		switch m.Kind {
		case "patch":
			addOps(m.Ops)
			addOps(m.AltOps)
		case "set":
			statuses[m.Body.Status], owners[m.Body.Owner], ns[m.Body.N] = true, true, true
		}
	}
	for _, c := range s.Claimers {
		if c.Kind == "pe" {
			addOps(c.Ops)
		}
	}
	for _, h := range plan.Hints {
		for _, v := range h.Values {
			switch h.FieldPath {
			case "status":
				if sv, ok := v.(string); ok && statuses[sv] {
					return true
				}
			case "owner":
				if sv, ok := v.(string); ok && owners[sv] {
					return true
				}
			case "n":
				if nAny {
					return true
				}
				switch iv := v.(type) {
				case int64:
					if ns[iv] {
						return true
					}
				case int32:
					if ns[int64(iv)] {
						return true
					}
				case int:
					if ns[int64(iv)] {
						return true
					}
				default:
					return true // unknown representation: do not claim impossibility
				}
			default:
				return true
			}
		}
	}
	return false
}

func trimFired(f []string) []string {
	if len(f) > 12 {
		return append(append([]string(nil), f[:12]...), fmt.Sprintf("… %d more", len(f)-12))
	}
	return f
}

func isPEShape(evs []*event) bool {
	for _, e := range evs {
		if e.Kind == evPEPatched || e.Kind == evPECondFail {
			return true
		}
	}
	return false
}

// TestC11Mixed runs the full domain. While findings are open their failure
// shapes are expected here (the facet then reports under the first open
// finding's name); any other shape is a violation. With no finding open it is
// an ordinary main facet.
func TestC11Mixed(t *testing.T) {
	o := c11OpenNow()
	c11Excluded("mixed", o)
	sp := pbt.Spec[C11Scenario]{
		ID: "C11", Facet: "mixed", Rule: "full domain of the main facet without the exclusions for open findings; " + c11Rule,
		Quick: 5000, Thorough: 120000,
		Gen: genC11(modeMixed, o), Run: runC11,
	}
	var name string
	var shapes []string
	for _, x := range []struct {
		open        bool
		name, shape string
	}{
		{o.nonAtomic, "shift-removal-not-atomic", "double-hand-out"},
		{o.stale, "stale-candidate-keyset", "stale-candidate"},
		{o.gap, "patch-expired-select-apply-gap", "select-apply-gap"},
		{o.resave, "patch-expired-resaves-removed-record", "resurrected"},
		{o.reindexDup, "reindex-duplicates-order-entry", "resurrected"},
	} {
		if x.open {
			if name == "" {
				name = x.name
			}
			shapes = append(shapes, x.shape)
		}
	}
	if name == "" {
		pbt.Main(t, sp)
		return
	}
	pbt.Witness(t, sp, name, shapes...)
}

// ---------------------------------------------------------------------------
// sequential facet: one request at a time, exact expectation (oldest-first)

type C11SeqStep struct {
	Claim *C11Claimer `json:"claim,omitempty"`
	Mut   *C11Mutator `json:"mut,omitempty"`
}

type C11Seq struct {
	Mem    bool         `json:"mem,omitempty"`
	Reload bool         `json:"reload,omitempty"`
	Recs   []C11Rec     `json:"recs"` // distinct ExpiredAt / CreatedAt offsets: every index order is strict
	Steps  []C11SeqStep `json:"steps"`
}

func genC11Seq(t *rapid.T) C11Seq {
	var s C11Seq
	s.Mem = rapid.IntRange(0, 3).Draw(t, "mem") == 0
	s.Reload = !s.Mem && rapid.IntRange(0, 2).Draw(t, "reload") == 0
	nrec := rapid.IntRange(4, 24).Draw(t, "nrec")
	usedExp, usedCre := map[int]bool{}, map[int]bool{}
	for i := 0; i < nrec; i++ {
		r := C11Rec{B: genBody(t)}
		for {
			r.Exp = genExpSec(t, "exp")
			if r.Exp == 0 || !usedExp[r.Exp] {
				usedExp[r.Exp] = true
				break
			}
		}
		for {
			r.Cre = -rapid.IntRange(4100, 8000).Draw(t, "cre")
			if !usedCre[r.Cre] {
				usedCre[r.Cre] = true
				break
			}
		}
		s.Recs = append(s.Recs, r)
	}
	all := func(string) bool { return true }
	ns := rapid.IntRange(1, 6).Draw(t, "nsteps")
	for i := 0; i < ns; i++ {
		if rapid.IntRange(0, 3).Draw(t, "step-mut") == 0 {
			m := C11Mutator{Kind: rapid.SampledFrom([]string{"patch", "patch", "delete"}).Draw(t, "mkind")}
			nk := rapid.IntRange(1, 4).Draw(t, "mnkeys")
			seen := map[int]bool{}
			for j := 0; j < nk; j++ {
				k := rapid.IntRange(0, nrec-1).Draw(t, "mkey")
				if !seen[k] {
					seen[k] = true
					m.Keys = append(m.Keys, k)
				}
			}
			if m.Kind == "patch" {
				m.Ops = []POp{{Kind: "set-status", S: rapid.SampledFrom([]string{"ready", "held", "done", "leased"}).Draw(t, "mst")}}
				if rapid.Bool().Draw(t, "minc") {
					m.Ops = append(m.Ops, POp{Kind: "inc-n", I: int64(rapid.IntRange(1, 4).Draw(t, "mincv"))})
				}
			}
			s.Steps = append(s.Steps, C11SeqStep{Mut: &m})
			continue
		}
		c := C11Claimer{Kind: rapid.SampledFrom([]string{"se", "sm", "sm", "pe"}).Draw(t, "ckind")}
		c.HowMany = int32(rapid.SampledFrom([]int{0, 1, 2, 3, 5}).Draw(t, "howmany"))
		switch c.Kind {
		case "sm":
			c.Index = rapid.SampledFrom([]string{"key", "exp", "cre"}).Draw(t, "index")
			c.Desc = rapid.IntRange(0, 2).Draw(t, "desc") == 0
			c.MaxResults = int32(rapid.SampledFrom([]int{0, 0, 1, 2, 4}).Draw(t, "maxres"))
			if rapid.IntRange(0, 4).Draw(t, "hasfilter") > 0 {
				c.Filter = genFilter(t, all, all)
			}
			if c.Index != "key" && rapid.IntRange(0, 1).Draw(t, "window") == 0 {
				c.From = -rapid.IntRange(100, 8000).Draw(t, "from")
				if rapid.Bool().Draw(t, "hasto") {
					c.To = c.From + rapid.IntRange(100, 9000).Draw(t, "span")
					if c.To == 0 {
						c.To = 1
					}
				}
			}
			c.Filter = excludeAnchor(c.Filter)
		case "pe":
			c.Ops = []POp{{Kind: "set-owner", S: fmt.Sprintf("w%d", i)}}
			if rapid.Bool().Draw(t, "pe-setstatus") {
				c.Ops = append(c.Ops, POp{Kind: "set-status", S: "leased"})
			}
			if rapid.IntRange(0, 2).Draw(t, "pe-hasfilter") > 0 {
				c.Filter = genFilter(t, all, all)
			}
			if rapid.IntRange(0, 2).Draw(t, "pe-cond") == 0 {
				c.Cond = &PCond{Field: "status", Op: "ne", S: rapid.SampledFrom([]string{"done", "held", "leased"}).Draw(t, "pe-condv")}
			}
			if rapid.IntRange(0, 2).Draw(t, "pe-lease") > 0 {
				c.Lease = rapid.IntRange(600, 4000).Draw(t, "pe-leasev") + i // distinct from every other expiry in practice
			}
		}
		s.Steps = append(s.Steps, C11SeqStep{Claim: &c})
	}
	return s
}

func runC11Seq(s C11Seq) pbt.Outcome {
	e := getEnv()
	if poisoned {
		return pbt.Outcome{Skip: true}
	}
	sn := freshSwamp("c11s-", s.Mem)
	defer e.destroy(sn)
	isl := rig.Island(sn)
	wall0 := time.Now().UnixNano()
	abs := func(sec int) int64 {
		if sec == 0 {
			return 0
		}
		return wall0 + int64(sec)*1e9
	}
	isExpired := func(exp int64) bool { return exp != 0 && exp < wall0+300e9 }
	model := map[string]*kstate{}
	var recs []seedRec
	for i, r := range s.Recs {
		recs = append(recs, seedRec{Key: keyOf(i), Body: r.B, Exp: abs(r.Exp), Created: abs(r.Cre)})
		model[keyOf(i)] = &kstate{Exists: true, Body: r.B, Exp: abs(r.Exp), Cre: abs(r.Cre)}
	}
	for _, k := range anchorKeys {
		recs = append(recs, seedRec{Key: k, Body: anchorBody})
	}
	if err := e.seed(sn, recs); err != nil {
		return pbt.Failf("harness", "seed: %v", err)
	}
	if s.Reload {
		e.r.CloseSwamp(sn)
	}
	var out pbt.Outcome
	limited, windowed, nonEmpty := false, false, false
	for si, st := range s.Steps {
		if m := st.Mut; m != nil {
			var ks []string
			for _, k := range m.Keys {
				ks = append(ks, keyOf(k))
			}
			if m.Kind == "delete" {
				if _, err := e.r.G.Delete(e.ctx, &hydrapb.DeleteRequest{Swamps: []*hydrapb.DeleteRequest_SwampKeys{{IslandID: isl, SwampName: sn, Keys: ks}}}); err != nil {
					return pbt.Failf("rpc-error", "step %d delete: %v", si, err)
				}
				for _, k := range ks {
					model[k].Exists = false
				}
			} else {
				var ps []*hydrapb.TreasurePatch
				for _, k := range ks {
					ps = append(ps, &hydrapb.TreasurePatch{Key: k, Ops: opsProto(m.Ops)})
				}
				if _, err := e.r.G.PatchTreasures(e.ctx, &hydrapb.PatchTreasuresRequest{IslandID: isl, SwampName: sn, Patches: ps}); err != nil {
					return pbt.Failf("rpc-error", "step %d patch: %v", si, err)
				}
				for _, k := range ks {
					if model[k].Exists {
						model[k].Body = applyOps(m.Ops, model[k].Body)
					}
				}
			}
			continue
		}
		c := *st.Claim
		who := c.describe(si)
		// expected: candidates in index order, first `limit`
		type cand struct {
			key  string
			attr int64
		}
		var cands []cand
		for k, ms := range model {
			if ms.Exists && initiallyCandidate(c, *ms, abs, isExpired) {
				a := ms.Exp
				if c.Kind == "sm" && c.Index == "cre" {
					a = ms.Cre
				}
				cands = append(cands, cand{k, a})
			}
		}
		byKey := c.Kind == "sm" && c.Index == "key"
		sort.Slice(cands, func(i, j int) bool {
			less := cands[i].attr < cands[j].attr
			if byKey {
				less = cands[i].key < cands[j].key
			}
			if c.Desc {
				return !less
			}
			return less
		})
		type ca struct {
			attr int64
			ok   bool
		}
		candAttr := map[string]ca{}
		for _, x := range cands {
			candAttr[x.key] = ca{x.attr, true}
		}
		limit := int(c.HowMany)
		if c.Kind == "sm" && c.MaxResults > 0 && (limit == 0 || int(c.MaxResults) < limit) {
			limit = int(c.MaxResults)
		}
		if limit > 0 && len(cands) > limit {
			cands = cands[:limit]
			limited = true
		}
		if c.From != 0 || c.To != 0 {
			windowed = true
		}
		var want []string
		for _, x := range cands {
			want = append(want, x.key)
		}
		// records may share an index timestamp (one lease for a whole PatchExpired batch): the
		// order inside such a tie class is free, so responses are compared position-wise on the
		// index attribute and on membership in the candidate set
		sameUpToTies := func(got []string) bool {
			if len(got) != len(cands) {
				return false
			}
			if byKey {
				return fmt.Sprint(got) == fmt.Sprint(want)
			}
			seen := map[string]bool{}
			for i, k := range got {
				if !candAttr[k].ok || seen[k] || candAttr[k].attr != cands[i].attr {
					return false
				}
				seen[k] = true
			}
			return true
		}
		var got []string
		switch c.Kind {
		case "se", "sm":
			var trs []*hydrapb.Treasure
			if c.Kind == "se" {
				resp, err := e.r.G.ShiftExpiredTreasures(e.ctx, &hydrapb.ShiftExpiredTreasuresRequest{IslandID: isl, SwampName: sn, HowMany: c.HowMany})
				if err != nil || resp == nil {
					return pbt.Failf("rpc-error", "step %d %s: %v", si, who, err)
				}
				trs = resp.Treasures
			} else {
				resp, err := e.r.G.ShiftMatchingTreasures(e.ctx, &hydrapb.ShiftMatchingTreasuresRequest{IslandID: isl, SwampName: sn, IndexType: indexType(c.Index), OrderType: orderType(c.Desc),
					HowMany: c.HowMany, MaxResults: c.MaxResults, Filters: c.Filter.proto(), FromTime: nanosToTS(abs(c.From)), ToTime: nanosToTS(abs(c.To))})
				if err != nil || resp == nil {
					return pbt.Failf("rpc-error", "step %d %s: %v", si, who, err)
				}
				trs = resp.Treasures
			}
			for _, tr := range trs {
				got = append(got, tr.Key)
				ms := model[tr.Key]
				if ms == nil {
					return pbt.Failf("criteria", "step %d %s returned %s (anchor / unknown key)", si, who, tr.Key)
				}
				if b, err := decodeWrapped(tr.BytesVal); err != nil || b != ms.Body || tsToNanos(tr.ExpiredAt) != ms.Exp || tsToNanos(tr.CreatedAt) != ms.Cre {
					return pbt.Failf("clone", "step %d %s: returned %s as %v exp=%d cre=%d (%v), stored %v exp=%d cre=%d", si, who, tr.Key, b, tsToNanos(tr.ExpiredAt), tsToNanos(tr.CreatedAt), err, ms.Body, ms.Exp, ms.Cre)
				}
			}
			if !sameUpToTies(got) {
				return pbt.Failf("oldest-first", "step %d %s returned %v; the first matching records in index order are %v (up to the order of equal timestamps)", si, who, got, want)
			}
			for _, k := range got {
				model[k].Exists = false
			}
		case "pe":
			req := &hydrapb.PatchExpiredTreasuresRequest{IslandID: isl, SwampName: sn, HowMany: c.HowMany, Ops: opsProto(c.Ops), Condition: c.Cond.proto(), Filters: c.Filter.proto()}
			if c.Lease != 0 {
				req.Meta = &hydrapb.PatchMeta{SetExpiredAt: nanosToTS(abs(c.Lease))}
			}
			resp, err := e.r.G.PatchExpiredTreasures(e.ctx, req)
			if err != nil || resp == nil {
				return pbt.Failf("rpc-error", "step %d %s: %v", si, who, err)
			}
			for _, p := range resp.Patched {
				got = append(got, p.Key)
			}
			if !sameUpToTies(got) {
				return pbt.Failf("oldest-first", "step %d %s lists %v; the first expired matching records (oldest first) are %v (up to the order of equal timestamps)", si, who, got, want)
			}
			for _, p := range resp.Patched {
				ms := model[p.Key]
				if !evalCond(c.Cond, ms.Body) {
					if p.Status != hydrapb.PatchResult_CONDITION_NOT_MET {
						return pbt.Failf("status", "step %d %s: %s status %v, want CONDITION_NOT_MET", si, who, p.Key, p.Status)
					}
					continue
				}
				nb := applyOps(c.Ops, ms.Body)
				b, err := decodeBody(p.NewMsgpack)
				ne := ms.Exp
				if c.Lease != 0 {
					ne = abs(c.Lease)
				}
				if p.Status != hydrapb.PatchResult_PATCHED || err != nil || b != nb || tsToNanos(p.ExpiredAt) != ne {
					return pbt.Failf("status", "step %d %s: %s status %v body %v (%v) exp %d, want PATCHED %v exp %d", si, who, p.Key, p.Status, b, err, tsToNanos(p.ExpiredAt), nb, ne)
				}
				ms.Body, ms.Exp = nb, ne
			}
		}
		if len(got) > 0 {
			nonEmpty = true
		}
	}
	all, err := e.getAll(sn)
	if err != nil || all == nil {
		return pbt.Failf("swamp-gone", "final GetAll: %v %v", all == nil, err)
	}
	for k, ms := range model {
		tr, ok := all[k]
		if ok != ms.Exists {
			return pbt.Failf("final-state", "key %s present=%v, model %v", k, ok, ms.Exists)
		}
		if ok {
			if b, err := decodeWrapped(tr.BytesVal); err != nil || b != ms.Body || tsToNanos(tr.ExpiredAt) != ms.Exp {
				return pbt.Failf("final-state", "key %s is %v exp %d (%v), model %v exp %d", k, b, tsToNanos(tr.ExpiredAt), err, ms.Body, ms.Exp)
			}
		}
	}
	out.NonTrivial = nonEmpty && limited
	if limited {
		out.Classes = append(out.Classes, "limit-cut-the-result")
	}
	if windowed {
		out.Classes = append(out.Classes, "has-time-window")
	}
	if nonEmpty {
		out.Classes = append(out.Classes, "claim-returned-records")
	}
	return out
}

func TestC11Sequential(t *testing.T) {
	pbt.Main(t, pbt.Spec[C11Seq]{
		ID: "C11", Facet: "sequential",
		Rule: "one request at a time on 4–24 records with pairwise distinct ExpiredAt / CreatedAt: 1–6 steps of ShiftExpired / ShiftMatching (3 indexes, both orders, filters, windows, HowMany/MaxResults) / PatchExpired (ops, condition, filter, lease) " +
			"interleaved with PatchTreasures / Delete; every response must be EXACTLY the first `limit` matching records in index order (oldest first) with their stored bodies and timestamps, PatchExpired statuses/bodies/expiries per the model, and the final state must equal the model. " +
			"Non-trivial = a claim returned records and a limit cut the candidate list.",
		Quick: 6000, Thorough: 100000,
		Gen: genC11Seq, Run: runC11Seq,
	})
}
