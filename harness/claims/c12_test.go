//go:build verifvsched

package claims

import (
	"fmt"
	"sort"
	"sync"
	"testing"
	"time"

	"github.com/hydraide/hydraide/app/verifshim/vsched"
	hydrapb "github.com/hydraide/hydraide/sdk/go/hydraidego/v3/hydraidepbgo"
	"pgregory.net/rapid"

	"verifharness/internal/pbt"
	"verifharness/internal/rig"
)

// C12 — Cap-bearing operations never push the match count above the cap.

type C12Patch struct {
	Key  int    `json:"key"` // >= 0: existing record index; < 0: a new key "c<-Key>" (needs the batch's Create)
	Ops  []POp  `json:"ops"` // explicit-key mutation
	Cond *PCond `json:"cond,omitempty"`
}

type C12Batch struct {
	Kind    string     `json:"kind"` // touch = PatchTreasures WITHOUT Cap writing only a field the cap filter does not read (heartbeat) | patch = PatchTreasures(Cap) | pe = PatchExpiredTreasures(Cap) | sm = ShiftMatchingTreasures(Cap) | release = PatchTreasures without Cap that only moves records OUT
	Patches []C12Patch `json:"patches,omitempty"`
	Create  bool       `json:"create,omitempty"` // patch: CreateIfNotExist
	Seed    *Body      `json:"seed,omitempty"`   // patch: InitialMsgpackOnCreate
	Meta    int        `json:"meta,omitempty"`   // patch: != 0 ⇒ Meta{SetExpiredAt: start+Meta s, SetCreatedAt: true}
	HowMany int32      `json:"how_many,omitempty"`
	Ops     []POp      `json:"ops,omitempty"`    // pe
	Lease   int        `json:"lease,omitempty"`  // pe
	Filter  *Filt      `json:"filter,omitempty"` // pe / sm selection filter
	Index   string     `json:"index,omitempty"`  // sm
	DelayUs int        `json:"delay_us,omitempty"`
	Reps    int        `json:"reps,omitempty"` // touch: the request is sent Reps times back to back
}

type C12Scenario struct {
	Mem    bool            `json:"mem,omitempty"`
	Cold   bool            `json:"cold,omitempty"` // no warm-up: first index / bucket builds race the batches
	Recs   []C11Rec        `json:"recs"`
	Cap    Filt            `json:"cap"` // body-only filter (status IN … [AND n >= …])
	Max    int32           `json:"max"`
	Rounds [][]C12Batch    `json:"rounds"` // each round runs its batches concurrently; the count is read between rounds
	Plan   []vsched.Action `json:"plan,omitempty"`
}

func c12Key(k int) string {
	if k >= 0 {
		return keyOf(k)
	}
	return fmt.Sprintf("c%03d", -k)
}

var c12Sites = []string{
	"swamp:LockCapMu:Lock:eb218e",
	"swamp:UnlockCapMu:Unlock:9637f3",
	"swamp:CountMatchingTreasures:atomic.StoreInt64:1cc3f1",
	"beacon:CountMatching:RLock:554baa",
	"swamp_patch_expired:PatchExpired:Lock:eb218e",
	"swamp:CloneAndDeleteMatchingTreasures:Lock:eb218e",
	"swamp_patch:PatchFields:StartTreasureGuard:f4a9b0",
	"beacon:SelectExpiredForPatchWithCap:Lock:e380a5",
	"swamp_patch_expired:applyPatchExpiredOne:StartTreasureGuard:f4a9b0",
	"gateway_patch:patchTreasuresOneSwamp:BeginVigil:b2973a",
}

func genC12Plan(t *rapid.T) []vsched.Action {
	n := rapid.IntRange(0, 4).Draw(t, "nactions")
	var plan []vsched.Action
	for i := 0; i < n; i++ {
		a := vsched.Action{Site: rapid.SampledFrom(c12Sites).Draw(t, "site"), Hit: rapid.IntRange(0, 3).Draw(t, "hit")}
		switch rapid.IntRange(0, 3).Draw(t, "akind") {
		case 0:
			a.Kind = "gosched"
		case 1:
			a.Kind = "sleep"
			a.SleepUs = rapid.SampledFrom([]int{20, 200, 1000, 4000}).Draw(t, "us")
		default:
			a.Kind = "pause"
			a.Until = rapid.SampledFrom([]string{"site:swamp:UnlockCapMu:Unlock:9637f3", "site:swamp:LockCapMu:Lock:eb218e", "site:swamp_patch_expired:applyPatchExpiredOne:StartTreasureGuard:f4a9b0", "round-done"}).Draw(t, "until")
			a.MaxWaitMs = rapid.SampledFrom([]int{2, 10, 40}).Draw(t, "maxwait")
			if a.Hit == 0 {
				a.Hit = 1
			}
		}
		plan = append(plan, a)
	}
	return plan
}

// genC12Cap draws the cap filter and the status values inside / outside it.
func genC12Cap(t *rapid.T) (Filt, []string, []string, bool) {
	all := []string{"leased", "held", "ready", "done"}
	k := rapid.IntRange(1, 2).Draw(t, "ncapst")
	in := all[:k] // leased | leased+held
	out := all[k:]
	var f Filt
	statusLeg := Leg{Field: "status", Op: "eq", S: in[0]}
	if k == 2 {
		statusLeg = Leg{Field: "status", Op: "in", In: append([]string(nil), in...)}
	}
	f.Legs = append(f.Legs, statusLeg) // always the first leg (capIn reads it)
	hasN := false
	switch rapid.IntRange(0, 7).Draw(t, "capform") {
	case 0:
		hasN = true
		f.Legs = append(f.Legs, Leg{Field: "n", Op: "ge", I: int64(rapid.IntRange(3, 12).Draw(t, "capnv"))})
	case 1: // … OR owner IS_EMPTY: records without an owner field — and every record that is not a msgpack map — count too
		f.Or = true
		f.Legs = append(f.Legs, Leg{Field: "owner", Op: "empty"})
	case 2: // … OR status IS_EMPTY
		f.Or = true
		f.Legs = append(f.Legs, Leg{Field: "status", Op: "empty"})
	case 3: // … AND owner IS_NOT_EMPTY
		f.Legs = append(f.Legs, Leg{Field: "owner", Op: "notempty"})
	}
	return f, in, out, hasN
}

// genC12Alt decides whether a seeded record's value is something else than a msgpack map
// (typed int64 / string, or bytes without the msgpack magic). Such a record satisfies IS_EMPTY
// legs only; it is counted against the initial budget like any other matching record.
func genC12Alt(t *rapid.T, capF *Filt, matching *int, max int, mismatchOpen bool) string {
	if mismatchOpen && capF.hasEmptyLeg() {
		return "" // open finding cap-precount-evaluator-mismatch
	}
	if rapid.IntRange(0, 6).Draw(t, "alt") != 0 {
		return ""
	}
	alt := rapid.SampledFrom([]string{"int", "str", "raw"}).Draw(t, "altkind")
	if evalFiltOpaque(capF) {
		if *matching >= max {
			return ""
		}
		*matching++
	}
	return alt
}

// capHasN: the cap filter has a numeric leg on n (INC ops can then move records in or out).
func capHasN(f *Filt) bool {
	for _, l := range f.Legs {
		if l.Field == "n" && l.Op != "empty" && l.Op != "notempty" {
			return true
		}
	}
	return false
}

// capNeutralOp returns a body op that cannot change whether a record matches the cap filter
// (it writes a field the filter does not read), nil when there is none.
func capNeutralOp(f *Filt, tag string) []POp {
	fields := map[string]bool{}
	f.fields(fields)
	if !fields["owner"] {
		return []POp{{Kind: "set-owner", S: tag}}
	}
	if !fields["n"] {
		return []POp{{Kind: "inc-n", I: 1}}
	}
	return nil
}

// c12Matches is THE definition of "the record matches Cap.Filter" used by both C12 oracles: what the
// evaluator behind filtered reads, Shift* and PatchExpired answers. A msgpack map is judged field by field
// (an unset field IS_EMPTY, every other operator is false on it); any other value (typed value, bytes
// without the msgpack magic) satisfies IS_EMPTY legs only. TestC12Budget cross-checks it against a real filtered read.
func c12Matches(tr *hydrapb.Treasure, capF *Filt) (bool, error) {
	raw, ok := unwrapBody(tr.BytesVal)
	if !ok {
		return evalFiltOpaque(capF), nil
	}
	b, has, err := decodePartialBody(raw)
	if err != nil {
		return false, err
	}
	return evalFiltPartial(capF, b, has), nil
}

func genC12PatchOps(t *rapid.T, in, out []string, hasN bool) []POp {
	var ops []POp
	switch rapid.IntRange(0, 5).Draw(t, "pkind") {
	case 0, 1, 2: // towards the filter
		ops = append(ops, POp{Kind: "set-status", S: rapid.SampledFrom(in).Draw(t, "pin")})
	case 3: // out of the filter
		ops = append(ops, POp{Kind: "set-status", S: rapid.SampledFrom(out).Draw(t, "pout")})
	case 4: // status untouched
		ops = append(ops, POp{Kind: "set-owner", S: rapid.SampledFrom([]string{"a", "b"}).Draw(t, "pow")})
	default:
		ops = append(ops, POp{Kind: "inc-n", I: int64(rapid.IntRange(1, 6).Draw(t, "pinc"))})
	}
	if hasN && rapid.IntRange(0, 2).Draw(t, "pinc2") == 0 {
		ops = append(ops, POp{Kind: "inc-n", I: int64(rapid.IntRange(-6, 6).Draw(t, "pincv"))})
	}
	return ops
}

func opsCanMoveIn(ops []POp, in []string, hasN bool) bool {
	for _, o := range ops {
		switch o.Kind {
		case "set-status":
			for _, v := range in {
				if o.S == v {
					return true
				}
			}
		case "inc-n":
			if hasN {
				return true
			}
		}
	}
	return false
}

func genC12PatchBatch(t *rapid.T, nrec int, in, out []string, hasN bool, newKey *int) C12Batch {
	b := C12Batch{Kind: "patch"}
	b.Create = rapid.IntRange(0, 2).Draw(t, "create") == 0
	if b.Create {
		seed := Body{Status: rapid.SampledFrom(append(append([]string(nil), in...), out...)).Draw(t, "seedst"), Owner: "none", N: int64(rapid.IntRange(0, 20).Draw(t, "seedn"))}
		b.Seed = &seed
	}
	np := rapid.IntRange(1, 6).Draw(t, "npatches")
	for i := 0; i < np; i++ {
		p := C12Patch{Ops: genC12PatchOps(t, in, out, hasN)}
		if b.Create && rapid.IntRange(0, 2).Draw(t, "newkey") == 0 {
			*newKey++
			p.Key = -*newKey
		} else if len(b.Patches) > 0 && rapid.IntRange(0, 5).Draw(t, "dupkey") == 0 {
			p.Key = b.Patches[rapid.IntRange(0, len(b.Patches)-1).Draw(t, "dupidx")].Key
		} else {
			p.Key = rapid.IntRange(0, nrec-1).Draw(t, "pkey")
		}
		if rapid.IntRange(0, 4).Draw(t, "pcond") == 0 {
			p.Cond = &PCond{Field: "status", Op: rapid.SampledFrom([]string{"eq", "ne"}).Draw(t, "pcondop"), S: rapid.SampledFrom([]string{"ready", "held", "leased", "done"}).Draw(t, "pcondv")}
		}
		b.Patches = append(b.Patches, p)
	}
	return b
}

func (b C12Batch) movesIn(in []string, hasN bool) bool {
	switch b.Kind {
	case "patch":
		for _, p := range b.Patches {
			if opsCanMoveIn(p.Ops, in, hasN) {
				return true
			}
		}
		if b.Create && b.Seed != nil {
			return true // a created record may match through its seed
		}
		return false
	case "pe":
		return opsCanMoveIn(b.Ops, in, hasN)
	}
	return false
}

func genC12(strictOpen, indexOnlyOpen, mismatchOpen bool) func(t *rapid.T) C12Scenario {
	// forced schedules of repaired findings are regression inputs of the main generator
	var forced []func(*rapid.T) C12Scenario
	if !strictOpen {
		forced = append(forced, genC12Witness)
	}
	if !indexOnlyOpen {
		forced = append(forced, genC12WitnessIndexOnly)
	}
	return func(t *rapid.T) C12Scenario {
		if k := rapid.IntRange(0, 39).Draw(t, "forced-regression"); k < len(forced) {
			return forced[k](t)
		}
		var s C12Scenario
		s.Mem = rapid.IntRange(0, 3).Draw(t, "mem") == 0
		s.Cold = rapid.IntRange(0, 2).Draw(t, "cold") == 0
		capF, in, out, hasN := genC12Cap(t)
		s.Cap = capF
		s.Max = int32(rapid.IntRange(1, 6).Draw(t, "max"))
		nrec := rapid.IntRange(6, 30).Draw(t, "nrec")
		matching := 0
		for i := 0; i < nrec; i++ {
			r := C11Rec{Exp: genExpSec(t, "exp"), Cre: -rapid.IntRange(4100, 8000).Draw(t, "cre")}
			if indexOnlyOpen && r.Exp == 0 {
				// open finding cap-count-limited-to-walked-index: every record is in every walked index
				r.Exp = rapid.IntRange(600, 4000).Draw(t, "exp-forced")
			}
			r.B = Body{Status: rapid.SampledFrom([]string{"ready", "ready", "ready", "done", "leased", "held"}).Draw(t, "st"), Owner: "none", N: int64(rapid.IntRange(0, 20).Draw(t, "n"))}
			if evalFilt(&capF, r.B) {
				if matching >= int(s.Max) {
					r.B.Status = "ready" // the swamp starts within its cap
				} else {
					matching++
				}
			}
			r.Alt = genC12Alt(t, &capF, &matching, int(s.Max), mismatchOpen)
			s.Recs = append(s.Recs, r)
		}
		newKey := 0
		nr := rapid.IntRange(1, 3).Draw(t, "nrounds")
		for ri := 0; ri < nr; ri++ {
			nb := rapid.IntRange(2, 6).Draw(t, "nbatches")
			var round []C12Batch
			for bi := 0; bi < nb; bi++ {
				var b C12Batch
				switch rapid.SampledFrom([]string{"patch", "patch", "patch", "pe", "pe", "sm", "release", "touch", "touch"}).Draw(t, "bkind") {
				case "touch":
					// cap-less heartbeat: rewrites a field the cap filter does not read, several times, on many
					// records — it holds record guards while the cap-bearing flows count
					ops := capNeutralOp(&capF, fmt.Sprintf("hb%d", bi))
					if ops == nil {
						ops = []POp{{Kind: "set-status", S: out[0]}} // nothing neutral to write: move out instead
					}
					b = C12Batch{Kind: "touch", Reps: rapid.IntRange(1, 5).Draw(t, "treps")}
					np := rapid.IntRange(2, 8).Draw(t, "ntouch")
					for i := 0; i < np; i++ {
						b.Patches = append(b.Patches, C12Patch{Key: rapid.IntRange(0, nrec-1).Draw(t, "tkey"), Ops: ops})
					}
				case "patch":
					b = genC12PatchBatch(t, nrec, in, out, hasN, &newKey)
					if (indexOnlyOpen && b.Create) || rapid.IntRange(0, 5).Draw(t, "pmeta") == 0 {
						b.Meta = rapid.IntRange(600, 4000).Draw(t, "pmetav")
					}
				case "pe":
					b = C12Batch{Kind: "pe", HowMany: int32(rapid.SampledFrom([]int{0, 1, 2, 3, 5}).Draw(t, "pehow"))}
					b.Ops = []POp{{Kind: "set-status", S: rapid.SampledFrom(in).Draw(t, "pest")}, {Kind: "set-owner", S: fmt.Sprintf("w%d", bi)}}
					if rapid.IntRange(0, 3).Draw(t, "pelease") > 0 {
						b.Lease = rapid.IntRange(600, 4000).Draw(t, "peleasev")
					}
					if rapid.IntRange(0, 2).Draw(t, "pefilter") == 0 {
						b.Filter = &Filt{Legs: []Leg{{Field: "status", Op: rapid.SampledFrom([]string{"eq", "ne"}).Draw(t, "pefop"), S: rapid.SampledFrom([]string{"ready", "done"}).Draw(t, "pefv")}}}
					}
				case "sm":
					b = C12Batch{Kind: "sm", HowMany: int32(rapid.SampledFrom([]int{0, 1, 2, 4}).Draw(t, "smhow")), Index: rapid.SampledFrom([]string{"key", "exp", "cre"}).Draw(t, "smindex")}
					var f *Filt
					if rapid.Bool().Draw(t, "smfilter") {
						f = &Filt{Legs: []Leg{{Field: "status", Op: rapid.SampledFrom([]string{"eq", "ne"}).Draw(t, "smfop"), S: rapid.SampledFrom([]string{"ready", "done", "leased"}).Draw(t, "smfv")}}}
					}
					b.Filter = excludeAnchor(f)
				case "release":
					b = C12Batch{Kind: "release"}
					np := rapid.IntRange(1, 5).Draw(t, "nrel")
					for i := 0; i < np; i++ {
						b.Patches = append(b.Patches, C12Patch{Key: rapid.IntRange(0, nrec-1).Draw(t, "relkey"), Ops: []POp{{Kind: "set-status", S: rapid.SampledFrom(out).Draw(t, "relst")}}})
					}
				}
				b.DelayUs = rapid.SampledFrom([]int{0, 0, 0, 30, 200}).Draw(t, "bdelay")
				round = append(round, b)
			}
			if pbt.Open("C11", "shift-removal-not-atomic") {
				// A record a Shift* has handed out stays patchable until the shift's deferred removal, and a
				// PatchTreasures that fetched it before re-inserts it afterwards (C11 finding, open): a cap-less
				// heartbeat can so bring a MATCHING record back after the cap-bearing flows counted it gone.
				// While that finding is open a round has either ShiftMatching batches or heartbeats.
				hasSM := false
				for _, b := range round {
					if b.Kind == "sm" {
						hasSM = true
					}
				}
				if hasSM {
					for i := range round {
						if round[i].Kind == "touch" {
							round[i].Kind = "release"
							round[i].Reps = 0
							for j := range round[i].Patches {
								round[i].Patches[j].Ops = []POp{{Kind: "set-status", S: out[0]}}
							}
						}
					}
				}
			}
			if strictOpen {
				// open finding cap-precount-before-lock: an in-moving PatchTreasures(Cap) batch must not run
				// next to another in-moving cap-bearing batch. Keep either the PatchExpired in-movers or one
				// PatchTreasures in-mover; the others are turned into releases of the same keys.
				var movers []int
				patchMover := -1
				for i, b := range round {
					if b.movesIn(in, hasN) {
						movers = append(movers, i)
						if b.Kind == "patch" && patchMover < 0 {
							patchMover = i
						}
					}
				}
				if patchMover >= 0 && len(movers) >= 2 {
					keepPatch := rapid.Bool().Draw(t, "keep-patch-mover")
					for _, i := range movers {
						if keepPatch && i == patchMover {
							continue
						}
						if !keepPatch && round[i].Kind == "pe" {
							continue
						}
						rel := C12Batch{Kind: "release", DelayUs: round[i].DelayUs}
						for _, p := range round[i].Patches {
							if p.Key >= 0 {
								rel.Patches = append(rel.Patches, C12Patch{Key: p.Key, Ops: []POp{{Kind: "set-status", S: out[0]}}})
							}
						}
						if len(rel.Patches) == 0 {
							rel.Patches = []C12Patch{{Key: 0, Ops: []POp{{Kind: "set-status", S: out[0]}}}}
						}
						round[i] = rel
					}
				}
			}
			s.Rounds = append(s.Rounds, round)
		}
		s.Plan = genC12Plan(t)
		return s
	}
}

func (s C12Scenario) capProto() *hydrapb.Cap {
	return &hydrapb.Cap{Filter: s.Cap.proto(), MaxMatching: s.Max}
}

func c12Count(all map[string]*hydrapb.Treasure, capF *Filt) (int, []string, error) {
	n := 0
	var keys []string
	for k, tr := range all {
		m, err := c12Matches(tr, capF)
		if err != nil {
			return 0, nil, fmt.Errorf("key %s: %v", k, err)
		}
		if m {
			n++
			keys = append(keys, k)
		}
	}
	sort.Strings(keys)
	return n, keys, nil
}

func c12Seed(e *env, sn string, s C12Scenario, wall0 int64) error {
	var recs []seedRec
	for i, r := range s.Recs {
		sr := seedRec{Key: keyOf(i), Alt: r.Alt, Body: r.B, Created: wall0 + int64(r.Cre)*1e9}
		if r.Exp != 0 {
			sr.Exp = wall0 + int64(r.Exp)*1e9
		}
		recs = append(recs, sr)
	}
	for _, k := range anchorKeys {
		recs = append(recs, seedRec{Key: k, Body: anchorBody})
	}
	if err := e.seed(sn, recs); err != nil {
		return err
	}
	if s.Cold {
		return nil // the racing requests build the indexes / buckets themselves
	}
	isl := rig.Island(sn)
	for _, it := range []hydrapb.IndexType_Type{hydrapb.IndexType_KEY, hydrapb.IndexType_EXPIRATION_TIME, hydrapb.IndexType_CREATION_TIME} {
		if _, err := e.r.G.GetByIndex(e.ctx, &hydrapb.GetByIndexRequest{IslandID: isl, SwampName: sn, IndexType: it, Limit: 1}); err != nil {
			return err
		}
	}
	for _, l := range []Leg{{Field: "status", Op: "eq", S: "__none__"}, {Field: "owner", Op: "eq", S: "__none__"}, {Field: "n", Op: "eq", I: -777}} {
		if _, err := e.r.G.PatchExpiredTreasures(e.ctx, &hydrapb.PatchExpiredTreasuresRequest{IslandID: isl, SwampName: sn, HowMany: 1,
			Ops: opsProto([]POp{{Kind: "set-owner", S: "warm-up"}}), Filters: (&Filt{Legs: []Leg{l}}).proto()}); err != nil {
			return err
		}
	}
	return nil
}

func patchReq(sn string, b C12Batch, cap *hydrapb.Cap, wall0 int64) *hydrapb.PatchTreasuresRequest {
	var ps []*hydrapb.TreasurePatch
	for _, p := range b.Patches {
		ps = append(ps, &hydrapb.TreasurePatch{Key: c12Key(p.Key), Ops: opsProto(p.Ops), Condition: p.Cond.proto()})
	}
	req := &hydrapb.PatchTreasuresRequest{IslandID: rig.Island(sn), SwampName: sn, Patches: ps, Cap: cap, CreateIfNotExist: b.Create}
	if b.Seed != nil {
		req.InitialMsgpackOnCreate = encodeBody(*b.Seed)
	}
	if b.Meta != 0 {
		req.Meta = &hydrapb.PatchMeta{SetExpiredAt: nanosToTS(wall0 + int64(b.Meta)*1e9), SetCreatedAt: true}
	}
	return req
}

func runC12(s C12Scenario) pbt.Outcome {
	e := getEnv()
	if poisoned {
		return pbt.Outcome{Skip: true}
	}
	sn := freshSwamp("c12-", s.Mem)
	defer e.destroy(sn)
	isl := rig.Island(sn)
	t0 := time.Now()
	wall0 := t0.UnixNano()
	panics0 := e.r.Logs.Panics()
	if err := c12Seed(e, sn, s, wall0); err != nil {
		return pbt.Failf("harness", "seed: %v", err)
	}
	all, err := e.getAll(sn)
	if err != nil || all == nil {
		return pbt.Failf("harness", "GetAll: %v", err)
	}
	count0, _, err := c12Count(all, &s.Cap)
	if err != nil {
		return pbt.Failf("harness", "initial count: %v", err)
	}
	if count0 > int(s.Max) {
		return pbt.Failf("harness", "generator produced %d matching records for cap %d", count0, s.Max)
	}
	capP := s.capProto()
	in := capIn(&s.Cap)
	hasN := capHasN(&s.Cap)
	cls := map[string]bool{}
	overlapAny := false
	demand := 0
	vsched.Activate(s.Plan, false)
	active := true
	defer func() {
		if active {
			vsched.Deactivate()
		}
	}()
	var fired []string
	for ri, round := range s.Rounds {
		type res struct {
			call, ret int64
			err       error
			nilResp   bool
			capReach  bool
		}
		rs := make([]res, len(round))
		start := make(chan struct{})
		var wg sync.WaitGroup
		for bi := range round {
			wg.Add(1)
			go func(bi int) {
				defer wg.Done()
				b := round[bi]
				<-start
				if b.DelayUs > 0 {
					time.Sleep(time.Duration(b.DelayUs) * time.Microsecond)
				}
				r := &rs[bi]
				r.call = int64(time.Since(t0))
				switch b.Kind {
				case "patch":
					resp, err := e.r.G.PatchTreasures(e.ctx, patchReq(sn, b, capP, wall0))
					r.err, r.nilResp, r.capReach = err, resp == nil, resp.GetCapReached()
				case "release":
					resp, err := e.r.G.PatchTreasures(e.ctx, patchReq(sn, b, nil, wall0))
					r.err, r.nilResp = err, resp == nil
				case "touch":
					for rep := 0; rep < max(b.Reps, 1) && r.err == nil && !r.nilResp; rep++ {
						resp, err := e.r.G.PatchTreasures(e.ctx, patchReq(sn, b, nil, wall0))
						r.err, r.nilResp = err, resp == nil
					}
				case "pe":
					req := &hydrapb.PatchExpiredTreasuresRequest{IslandID: isl, SwampName: sn, HowMany: b.HowMany, Ops: opsProto(b.Ops), Filters: b.Filter.proto(), Cap: capP}
					if b.Lease != 0 {
						req.Meta = &hydrapb.PatchMeta{SetExpiredAt: nanosToTS(wall0 + int64(b.Lease)*1e9)}
					}
					resp, err := e.r.G.PatchExpiredTreasures(e.ctx, req)
					r.err, r.nilResp, r.capReach = err, resp == nil, resp.GetCapReached()
				case "sm":
					resp, err := e.r.G.ShiftMatchingTreasures(e.ctx, &hydrapb.ShiftMatchingTreasuresRequest{IslandID: isl, SwampName: sn, IndexType: indexType(b.Index), HowMany: b.HowMany, Filters: b.Filter.proto(), Cap: capP})
					r.err, r.nilResp, r.capReach = err, resp == nil, resp.GetCapReached()
				}
				r.ret = int64(time.Since(t0))
			}(bi)
		}
		close(start)
		done := make(chan struct{})
		go func() { wg.Wait(); close(done) }()
		select {
		case <-done:
		case <-time.After(20 * time.Second):
			rep := vsched.Deactivate()
			active = false
			select {
			case <-done:
			case <-time.After(3 * time.Second):
				poisoned = true
				return pbt.Failf("hang", "round %d: requests did not return within 23 s (plan fired %v)", ri, trimFired(rep.Fired))
			}
		}
		vsched.Signal("round-done")
		for bi, r := range rs {
			if r.err != nil {
				return pbt.Failf("rpc-error", "round %d batch %d (%s): %v", ri, bi, round[bi].Kind, r.err)
			}
			if r.nilResp {
				return pbt.Failf("panic", "round %d batch %d (%s) returned (nil, nil)", ri, bi, round[bi].Kind)
			}
			if r.capReach {
				cls["cap-reached-reported"] = true
			}
			cls["batch:"+round[bi].Kind] = true
			if round[bi].movesIn(in, hasN) {
				switch round[bi].Kind {
				case "patch":
					demand += len(round[bi].Patches)
				case "pe":
					if round[bi].HowMany == 0 {
						demand += 3
					} else {
						demand += int(round[bi].HowMany)
					}
				}
			}
			for bj := bi + 1; bj < len(rs); bj++ {
				if rs[bi].call <= rs[bj].ret && rs[bj].call <= rs[bi].ret {
					overlapAny = true
				}
			}
		}
		if p := e.r.Logs.Panics(); p != panics0 {
			return pbt.Failf("panic", "%d handler panic(s) logged: %v", p-panics0, e.r.Logs.Recent(3))
		}
		// quiescent between rounds: count the records matching the cap filter
		all, err := e.getAll(sn)
		if err != nil || all == nil {
			return pbt.Failf("harness", "GetAll after round %d: %v", ri, err)
		}
		n, keys, err := c12Count(all, &s.Cap)
		if err != nil {
			return pbt.Failf("undecodable-body", "after round %d: %v", ri, err)
		}
		if n > int(s.Max) {
			rep := vsched.Deactivate()
			active = false
			return pbt.Failf("cap-exceeded", "after round %d (%s) %d records match the cap filter [%s] but Cap.MaxMatching is %d (started with %d): %v; plan fired %v",
				ri, describeRound(round), n, &s.Cap, s.Max, count0, keys, trimFired(rep.Fired))
		}
		if n == int(s.Max) {
			cls["cap-full-after-round"] = true
		}
	}
	rep := vsched.Deactivate()
	active = false
	fired = rep.Fired
	if len(fired) > 0 {
		cls["plan-fired"] = true
	}
	if overlapAny {
		cls["batches-overlap"] = true
	}
	if s.Cold {
		cls["cold-indexes-and-buckets"] = true
	}
	out := pbt.Outcome{NonTrivial: overlapAny && demand > int(s.Max)-count0}
	if demand > int(s.Max)-count0 {
		cls["demand-exceeds-budget"] = true
	}
	for c := range cls {
		out.Classes = append(out.Classes, c)
	}
	sort.Strings(out.Classes)
	return out
}

func capIn(f *Filt) []string {
	l := f.Legs[0]
	if l.Op == "eq" {
		return []string{l.S}
	}
	return l.In
}

func describeRound(round []C12Batch) string {
	s := ""
	for i, b := range round {
		if i > 0 {
			s += " ∥ "
		}
		switch b.Kind {
		case "patch", "release", "touch":
			s += fmt.Sprintf("%s[", b.Kind)
			for j, p := range b.Patches {
				if j > 0 {
					s += " "
				}
				s += fmt.Sprintf("%s%v", c12Key(p.Key), p.Ops)
			}
			s += "]"
			if b.Create {
				s += fmt.Sprintf("+create(seed %v)", b.Seed)
			}
		case "pe":
			s += fmt.Sprintf("pe(HowMany=%d ops=%v filter=[%s] lease=%d)", b.HowMany, b.Ops, b.Filter, b.Lease)
		case "sm":
			s += fmt.Sprintf("sm(index=%s HowMany=%d filter=[%s])", b.Index, b.HowMany, b.Filter)
		}
	}
	return s
}

const c12Rule = "6–30 msgpack records whose status (and optionally n) puts them inside / outside the cap filter (status IN {leased[,held]}, alone or AND n >= k / OR owner IS_EMPTY / OR status IS_EMPTY / AND owner IS_NOT_EMPTY) plus some records whose value is not a msgpack map (int64, string, raw bytes), MaxMatching 1–6, initial matching count ≤ cap; " +
	"1–3 rounds of 2–6 concurrent batches all carrying the SAME Cap: PatchTreasures(Cap) with explicit keys (moves in / out / in→in / out→out, duplicate keys, conditions, creates with a seed body), " +
	"PatchExpiredTreasures(Cap) (ops move the selected records in, optional lease and selection filter), ShiftMatchingTreasures(Cap), plus cap-less PatchTreasures that only move records out and cap-less repeated heartbeat patches that write a field the filter does not read; " +
	"0–4 drawn vsched actions at the count / capMu / selection / per-record sites. Oracle: after every round (quiescent) the number of records matching the cap filter (one definition: what the evaluator behind filtered reads / Shift / PatchExpired answers, re-implemented independently and cross-checked against a real filtered read in the budget facet) ≤ MaxMatching. " +
	"Non-trivial = batches overlap in time and the in-moving demand exceeds the remaining budget."

func TestC12Main(t *testing.T) {
	open := pbt.Open("C12", "cap-precount-before-lock")
	idxOnly := pbt.Open("C12", "cap-count-limited-to-walked-index")
	mismatch := pbt.Open("C12", "cap-precount-evaluator-mismatch")
	if pbt.Open("C11", "shift-removal-not-atomic") {
		pbt.Excluded("C12", "main", "cap-less heartbeat patches in the same round as a ShiftMatching (open C11 finding shift-removal-not-atomic: the patch can re-insert a matching record the shift removed)")
	}
	if mismatch {
		pbt.Excluded("C12", "main", "records whose value is not a msgpack map together with a cap filter that has an IS_EMPTY leg (open finding cap-precount-evaluator-mismatch)")
	}
	if open {
		pbt.Excluded("C12", "main", "an in-moving PatchTreasures(Cap) batch concurrent with another in-moving cap-bearing batch (open finding cap-precount-before-lock)")
	}
	if pbt.Open("C12", "cap-shift-autodestroy-vs-capmu-deadlock") {
		pbt.Excluded("C12", "main", "a cap-bearing ShiftMatching that removes the swamp's last record while another cap-bearing request is in flight: two anchor records no request can match keep every generated swamp non-empty (open finding cap-shift-autodestroy-vs-capmu-deadlock)")
	}
	if idxOnly {
		pbt.Excluded("C12", "main", "records without ExpiredAt / created records without ExpiredAt+CreatedAt, i.e. matching records outside a walked index (open finding cap-count-limited-to-walked-index)")
	}
	pbt.Main(t, pbt.Spec[C12Scenario]{
		ID: "C12", Facet: "main", Rule: c12Rule,
		Quick: 6000, Thorough: 150000,
		Gen: genC12(open, idxOnly, mismatch), Run: runC12,
	})
}

// --- witness: the pre-count runs before the cap mutex is taken -----------------

func genC12Witness(t *rapid.T) C12Scenario {
	var s C12Scenario
	s.Mem = rapid.Bool().Draw(t, "mem")
	s.Cap = Filt{Legs: []Leg{{Field: "status", Op: "eq", S: "leased"}}}
	s.Max = int32(rapid.IntRange(1, 4).Draw(t, "max"))
	nrec := 2*int(s.Max) + rapid.IntRange(2, 6).Draw(t, "extra")
	for i := 0; i < nrec; i++ {
		s.Recs = append(s.Recs, C11Rec{Exp: -rapid.IntRange(5, 4000).Draw(t, "exp"), Cre: -rapid.IntRange(4100, 8000).Draw(t, "cre"), B: Body{Status: "ready", Owner: "none", N: int64(i)}})
	}
	// two batches, each wants Max transitions on its own keys; the second one's count is taken
	// while the first still waits for the cap mutex
	var a, b C12Batch
	a.Kind, b.Kind = "patch", "patch"
	for i := 0; i < int(s.Max); i++ {
		a.Patches = append(a.Patches, C12Patch{Key: i, Ops: []POp{{Kind: "set-status", S: "leased"}}})
		b.Patches = append(b.Patches, C12Patch{Key: int(s.Max) + i, Ops: []POp{{Kind: "set-status", S: "leased"}}})
	}
	b.DelayUs = 2000
	s.Rounds = [][]C12Batch{{a, b}}
	s.Plan = []vsched.Action{{Site: "swamp:LockCapMu:Lock:eb218e", Hit: 1, Kind: "pause", Until: "site:swamp:UnlockCapMu:Unlock:9637f3", MaxWaitMs: 800}}
	return s
}

func TestC12WitnessPreCount(t *testing.T) {
	pbt.Witness(t, pbt.Spec[C12Scenario]{
		ID: "C12", Facet: "witness-cap-precount-before-lock",
		Rule: "two PatchTreasures(Cap) batches, each moving MaxMatching distinct records into the filter; the first has counted (0 matching) and is paused before LockCapMu until the second, " +
			"which counted 0 as well, has finished and released the mutex",
		Quick: 12, Thorough: 100, Gen: genC12Witness, Run: runC12,
	}, "cap-precount-before-lock", "cap-exceeded")
}

// --- sequential facet: budget accounting of explicit-key patches ------------------

type C12Seq struct {
	Mem     bool       `json:"mem,omitempty"`
	Recs    []C11Rec   `json:"recs"`
	Cap     Filt       `json:"cap"`
	Max     int32      `json:"max"`
	Batches []C12Batch `json:"batches"` // PatchTreasures(Cap) batches, one after the other
}

func genC12Seq(mismatchOpen bool) func(t *rapid.T) C12Seq {
	return func(t *rapid.T) C12Seq { return genC12SeqOne(t, mismatchOpen) }
}

func genC12SeqOne(t *rapid.T, mismatchOpen bool) C12Seq {
	if !mismatchOpen && rapid.IntRange(0, 39).Draw(t, "forced-regression") == 0 {
		return genC12WitnessEvaluatorMismatch(t)
	}
	var s C12Seq
	s.Mem = rapid.IntRange(0, 3).Draw(t, "mem") == 0
	capF, in, out, hasN := genC12Cap(t)
	s.Cap = capF
	s.Max = int32(rapid.IntRange(1, 5).Draw(t, "max"))
	nrec := rapid.IntRange(3, 14).Draw(t, "nrec")
	matching := 0
	for i := 0; i < nrec; i++ {
		r := C11Rec{Cre: -rapid.IntRange(4100, 8000).Draw(t, "cre")}
		r.B = Body{Status: rapid.SampledFrom([]string{"ready", "ready", "done", "leased", "held"}).Draw(t, "st"), Owner: "none", N: int64(rapid.IntRange(0, 20).Draw(t, "n"))}
		if evalFilt(&capF, r.B) {
			if matching >= int(s.Max) {
				r.B.Status = "ready"
			} else {
				matching++
			}
		}
		r.Alt = genC12Alt(t, &capF, &matching, int(s.Max), mismatchOpen)
		s.Recs = append(s.Recs, r)
	}
	newKey := 0
	nb := rapid.IntRange(1, 3).Draw(t, "nbatches")
	for i := 0; i < nb; i++ {
		b := genC12PatchBatch(t, nrec, in, out, hasN, &newKey)
		if b.Create {
			switch rapid.IntRange(0, 3).Draw(t, "seedkind") {
			case 0:
				// default empty seed {}: the created body only holds what the ops write
				b.Seed = nil
				for j := range b.Patches {
					if b.Patches[j].Key < 0 {
						b.Patches[j].Cond = nil // a condition on a missing field is not modelled
					}
				}
			case 1:
				// a seed drawn like a stored record, biased to sit INSIDE the cap filter already
				seed := Body{Status: rapid.SampledFrom(in).Draw(t, "seed-in-st"), Owner: rapid.SampledFrom([]string{"none", "a"}).Draw(t, "seed-ow"), N: int64(rapid.IntRange(12, 20).Draw(t, "seed-n"))}
				b.Seed = &seed
				// more new keys whose ops keep the record where the seed put it
				extra := rapid.IntRange(1, 3).Draw(t, "seed-extra")
				for j := 0; j < extra; j++ {
					newKey++
					ops := []POp{{Kind: "set-owner", S: rapid.SampledFrom([]string{"a", "b"}).Draw(t, "seed-extra-ow")}}
					if rapid.IntRange(0, 3).Draw(t, "seed-extra-out") == 0 {
						ops = append(ops, POp{Kind: "set-status", S: rapid.SampledFrom(out).Draw(t, "seed-extra-st")})
					}
					b.Patches = append(b.Patches, C12Patch{Key: -newKey, Ops: ops})
				}
			}
		}
		s.Batches = append(s.Batches, b)
	}
	return s
}

func runC12Seq(s C12Seq) pbt.Outcome {
	e := getEnv()
	if poisoned {
		return pbt.Outcome{Skip: true}
	}
	sn := freshSwamp("c12s-", s.Mem)
	defer e.destroy(sn)
	wall0 := time.Now().UnixNano()
	if err := c12Seed(e, sn, C12Scenario{Recs: s.Recs}, wall0); err != nil {
		return pbt.Failf("harness", "seed: %v", err)
	}
	type rec struct {
		exists bool
		b      Body
		has    fieldSet
		alt    string // value that is not a msgpack map: never patched, matches IS_EMPTY legs only
	}
	model := map[string]*rec{}
	for i, r := range s.Recs {
		model[keyOf(i)] = &rec{true, r.B, allFields, r.Alt}
	}
	matches := func(r *rec) bool {
		if r.alt != "" {
			return evalFiltOpaque(&s.Cap)
		}
		return evalFiltPartial(&s.Cap, r.b, r.has)
	}
	altPatched, altCounted := 0, 0
	capP := &hydrapb.Cap{Filter: s.Cap.proto(), MaxMatching: s.Max}
	transitions, refused, inIn := 0, 0, 0
	createSeedIn, createOpsIn, createRefused, createEmptySeed := 0, 0, 0, 0
	for bi, b := range s.Batches {
		// the documented four-cell rule
		count := 0
		for _, r := range model {
			if r.exists && matches(r) {
				count++
				if r.alt != "" {
					altCounted++
				}
			}
		}
		budget := int(s.Max) - count
		if budget < 0 {
			budget = 0
		}
		var want []hydrapb.PatchResult_StatusCode
		wantReached := false
		for _, p := range b.Patches {
			k := c12Key(p.Key)
			r := model[k]
			creating := r == nil || !r.exists
			if !creating && r.alt != "" {
				// the stored value is not a msgpack map: refused before anything else is looked at
				altPatched++
				if r.alt == "raw" {
					want = append(want, hydrapb.PatchResult_ENCODING_NOT_SUPPORTED)
				} else {
					want = append(want, hydrapb.PatchResult_TYPE_MISMATCH)
				}
				continue
			}
			var input Body
			var inHas fieldSet
			if creating {
				if !b.Create {
					want = append(want, hydrapb.PatchResult_KEY_NOT_FOUND)
					continue
				}
				if b.Seed != nil {
					input, inHas = *b.Seed, allFields
				} // else: the default empty map
			} else {
				input, inHas = r.b, r.has
			}
			if p.Cond != nil && !evalCond(p.Cond, input) {
				want = append(want, hydrapb.PatchResult_CONDITION_NOT_MET)
				continue
			}
			outB, outHas := applyOpsPartial(p.Ops, input, inHas)
			// a record created by this call was not there before: never "pre matches"
			pre := !creating && evalFiltPartial(&s.Cap, input, inHas)
			post := evalFiltPartial(&s.Cap, outB, outHas)
			if pre && post {
				inIn++
			}
			if creating && post {
				if b.Seed != nil && evalFilt(&s.Cap, input) {
					createSeedIn++ // the seed itself is inside the filter: still a not-there → matching transition
				} else {
					createOpsIn++
				}
				if budget <= 0 {
					createRefused++
				}
			}
			if creating && b.Seed == nil {
				createEmptySeed++
			}
			if !pre && post {
				if budget <= 0 {
					want = append(want, hydrapb.PatchResult_CAP_EXCEEDED)
					wantReached = true
					refused++
					continue
				}
				budget--
				transitions++
			}
			if creating {
				model[k] = &rec{true, outB, outHas, ""}
				want = append(want, hydrapb.PatchResult_CREATED)
			} else {
				r.b, r.has = outB, outHas
				want = append(want, hydrapb.PatchResult_PATCHED)
			}
		}
		resp, err := e.r.G.PatchTreasures(e.ctx, patchReq(sn, b, capP, wall0))
		if err != nil {
			return pbt.Failf("rpc-error", "batch %d: %v", bi, err)
		}
		if resp == nil {
			return pbt.Failf("panic", "batch %d returned (nil, nil)", bi)
		}
		if len(resp.Results) != len(want) {
			return pbt.Failf("budget", "batch %d: %d results for %d patches", bi, len(resp.Results), len(want))
		}
		for j, pr := range resp.Results {
			if pr.Status != want[j] {
				return pbt.Failf("budget", "batch %d (%s, cap [%s] max %d, %d matching before): patch %d on %s answered %v, the four-cell rule gives %v (all: got %v want %v)",
					bi, describeRound([]C12Batch{b}), &s.Cap, s.Max, count, j, c12Key(b.Patches[j].Key), pr.Status, want[j], statuses(resp.Results), want)
			}
		}
		if resp.CapReached != wantReached {
			return pbt.Failf("budget", "batch %d: CapReached=%v but %v expected (a transition was refused: %v)", bi, resp.CapReached, wantReached, wantReached)
		}
		all, err := e.getAll(sn)
		if err != nil || all == nil {
			return pbt.Failf("harness", "GetAll: %v", err)
		}
		for k, r := range model {
			tr, ok := all[k]
			if ok != r.exists {
				return pbt.Failf("budget", "batch %d: key %s present=%v, model %v", bi, k, ok, r.exists)
			}
			if !ok || r.alt != "" {
				continue
			}
			raw, okm := unwrapBody(tr.BytesVal)
			got, gotHas, err := decodePartialBody(raw)
			if !okm || err != nil || got != r.b || gotHas != r.has {
				return pbt.Failf("budget", "batch %d: key %s body %v fields %+v (%v), model %v fields %+v", bi, k, got, gotHas, err, r.b, r.has)
			}
		}
		n, keys, err := c12Count(all, &s.Cap)
		if err != nil {
			return pbt.Failf("undecodable-body", "after batch %d: %v", bi, err)
		}
		// the definition of "matches" is the read path's: a filtered read must return exactly these keys
		if got, err := e.filteredKeys(sn, s.Cap.proto()); err != nil {
			return pbt.Failf("harness", "filtered read: %v", err)
		} else if fmt.Sprint(got) != fmt.Sprint(keys) {
			return pbt.Failf("evaluator-vs-read-path", "after batch %d: a read filtered by [%s] returns %v, the harness evaluator says %v", bi, &s.Cap, got, keys)
		}
		if n > int(s.Max) {
			return pbt.Failf("cap-exceeded", "after batch %d: %d records match the cap filter, cap is %d: %v", bi, n, s.Max, keys)
		}
	}
	out := pbt.Outcome{NonTrivial: transitions > 0 && refused > 0}
	if transitions > 0 {
		out.Classes = append(out.Classes, "has-accepted-transition")
	}
	if refused > 0 {
		out.Classes = append(out.Classes, "has-refused-transition")
	}
	if inIn > 0 {
		out.Classes = append(out.Classes, "has-in-to-in")
	}
	if createSeedIn > 0 {
		out.Classes = append(out.Classes, "create-with-seed-inside-filter")
	}
	if createOpsIn > 0 {
		out.Classes = append(out.Classes, "create-moved-in-by-ops")
	}
	if createRefused > 0 {
		out.Classes = append(out.Classes, "create-refused-by-cap")
	}
	if createEmptySeed > 0 {
		out.Classes = append(out.Classes, "create-with-empty-seed")
	}
	if altPatched > 0 {
		out.Classes = append(out.Classes, "patch-on-non-msgpack-record")
	}
	if altCounted > 0 {
		out.Classes = append(out.Classes, "non-msgpack-record-counts-against-cap")
	}
	return out
}

func statuses(rs []*hydrapb.PatchResult) []hydrapb.PatchResult_StatusCode {
	var out []hydrapb.PatchResult_StatusCode
	for _, r := range rs {
		out = append(out, r.Status)
	}
	return out
}

func TestC12Budget(t *testing.T) {
	pbt.Main(t, pbt.Spec[C12Seq]{
		ID: "C12", Facet: "budget",
		Rule: "sequential: 1–3 PatchTreasures(Cap) batches of 1–6 explicit-key patches (duplicate keys, conditions, creates on missing keys with a seed body drawn inside or outside the cap filter or with the default empty seed, ops that move in / keep in / move out) on 3–14 records; a create is a not-there → (post matches ? one unit : free) transition whatever the seed; every per-key status, CapReached, the stored bodies and the " +
			"matching count are compared with a model of the documented four-cell rule (only not-matching→matching consumes one unit of MaxMatching − currentMatching; refused ⇒ CAP_EXCEEDED, no mutation; CapReached iff one was refused). " +
			"Non-trivial = at least one transition accepted and one refused.",
		Quick: 6000, Thorough: 100000,
		Gen: genC12Seq(pbt.Open("C12", "cap-precount-evaluator-mismatch")), Run: runC12Seq,
	})
}

// --- witness: the selection-based cap count only sees the walked index ---------------

func genC12WitnessIndexOnly(t *rapid.T) C12Scenario {
	var s C12Scenario
	s.Mem = rapid.Bool().Draw(t, "mem")
	s.Cap = Filt{Legs: []Leg{{Field: "status", Op: "eq", S: "leased"}}}
	s.Max = int32(rapid.IntRange(1, 4).Draw(t, "max"))
	for i := 0; i < int(s.Max); i++ { // the cap is already used up by records that never expire
		s.Recs = append(s.Recs, C11Rec{Exp: 0, Cre: -rapid.IntRange(4100, 8000).Draw(t, "cre"), B: Body{Status: "leased", Owner: "none", N: int64(i)}})
	}
	k := rapid.IntRange(1, 4).Draw(t, "expired")
	for i := 0; i < k; i++ {
		s.Recs = append(s.Recs, C11Rec{Exp: -rapid.IntRange(5, 4000).Draw(t, "exp"), Cre: -rapid.IntRange(4100, 8000).Draw(t, "cre"), B: Body{Status: "ready", Owner: "none", N: 10}})
	}
	s.Rounds = [][]C12Batch{{{Kind: "pe", HowMany: 0, Ops: []POp{{Kind: "set-status", S: "leased"}, {Kind: "set-owner", S: "w0"}}, Lease: 900}}}
	return s
}

func TestC12WitnessIndexOnly(t *testing.T) {
	pbt.Witness(t, pbt.Spec[C12Scenario]{
		ID: "C12", Facet: "witness-cap-count-limited-to-walked-index",
		Rule:  "sequential: MaxMatching records with status \"leased\" and NO ExpiredAt (cap used up) + 1–4 expired records with status \"ready\"; one PatchExpiredTreasures(Cap, SET status=\"leased\")",
		Quick: 12, Thorough: 100, Gen: genC12WitnessIndexOnly, Run: runC12,
	}, "cap-count-limited-to-walked-index", "cap-exceeded")
}

// --- witness: cap-bearing ShiftMatching auto-destroys the emptied swamp while it still holds capMu ------

type C12DestroyDL struct {
	N    int    `json:"n"`
	Kind string `json:"kind"` // the second cap-bearing request: patch | pe | sm
	Mem  bool   `json:"mem,omitempty"`
}

func runC12DestroyDL(s C12DestroyDL) pbt.Outcome {
	e := getEnv()
	if poisoned {
		return pbt.Outcome{Skip: true}
	}
	sn := freshSwamp("c12d-", s.Mem)
	isl := rig.Island(sn)
	now := time.Now().UnixNano()
	var recs []seedRec
	for i := 0; i < s.N; i++ { // no anchor: the shift below removes every record
		recs = append(recs, seedRec{Key: keyOf(i), Body: Body{Status: "ready", Owner: "none", N: int64(i)}, Exp: now - int64(100+i)*1e9, Created: now - int64(9000+i)*1e9})
	}
	if err := e.seed(sn, recs); err != nil {
		return pbt.Failf("harness", "seed: %v", err)
	}
	capP := &hydrapb.Cap{Filter: (&Filt{Legs: []Leg{{Field: "status", Op: "eq", S: "leased"}}}).proto(), MaxMatching: 3}
	// A holds capMu, has selected every record and is held before its first removal until B (vigil begun) asks for capMu
	plan := []vsched.Action{{Site: "swamp:deleteHandler:StartTreasureGuard:ac9b2b", Hit: 1, Kind: "pause", Until: "b-at-capmu", MaxWaitMs: 1500}}
	vsched.Activate(plan, false)
	var wg sync.WaitGroup
	wg.Add(2)
	go func() {
		defer wg.Done()
		e.r.G.ShiftMatchingTreasures(e.ctx, &hydrapb.ShiftMatchingTreasuresRequest{IslandID: isl, SwampName: sn, IndexType: hydrapb.IndexType_KEY, HowMany: 0,
			Filters: (&Filt{Legs: []Leg{{Field: "n", Op: "ge", I: 0}}}).proto(), Cap: capP})
	}()
	go func() {
		defer wg.Done()
		time.Sleep(5 * time.Millisecond)
		go func() {
			// B reaches its capMu request shortly after it began its vigil; release A a moment later
			time.Sleep(20 * time.Millisecond)
			vsched.Signal("b-at-capmu")
		}()
		switch s.Kind {
		case "pe":
			e.r.G.PatchExpiredTreasures(e.ctx, &hydrapb.PatchExpiredTreasuresRequest{IslandID: isl, SwampName: sn, HowMany: 1, Ops: opsProto([]POp{{Kind: "set-status", S: "leased"}}), Cap: capP})
		case "sm":
			e.r.G.ShiftMatchingTreasures(e.ctx, &hydrapb.ShiftMatchingTreasuresRequest{IslandID: isl, SwampName: sn, IndexType: hydrapb.IndexType_KEY, HowMany: 1,
				Filters: (&Filt{Legs: []Leg{{Field: "n", Op: "ge", I: 0}}}).proto(), Cap: capP})
		default:
			e.r.G.PatchTreasures(e.ctx, &hydrapb.PatchTreasuresRequest{IslandID: isl, SwampName: sn, Cap: capP,
				Patches: []*hydrapb.TreasurePatch{{Key: keyOf(0), Ops: opsProto([]POp{{Kind: "set-status", S: "leased"}})}}})
		}
	}()
	done := make(chan struct{})
	go func() { wg.Wait(); close(done) }()
	hung := false
	select {
	case <-done:
	case <-time.After(8 * time.Second):
		hung = true
	}
	rep := vsched.Deactivate()
	if !hung {
		e.destroy(sn)
		return pbt.Outcome{NonTrivial: len(rep.Fired) > 0, Classes: []string{"no-deadlock"}}
	}
	select {
	case <-done:
		e.destroy(sn)
		return pbt.Outcome{NonTrivial: true, Classes: []string{"slow-but-finished"}}
	case <-time.After(3 * time.Second):
	}
	count := func() (int, int) {
		v := goroutinesIn("vigil.(*vigil).WaitForActiveVigilsClosed", "sync.Cond.Wait")
		m := goroutinesIn("swamp.(*swamp).LockCapMu", "sync.Mutex") + goroutinesIn("swamp.(*swamp).PatchExpired", "sync.Mutex") + goroutinesIn("swamp.(*swamp).CloneAndDeleteMatchingTreasures", "sync.Mutex")
		return v, m
	}
	v1, m1 := count()
	time.Sleep(300 * time.Millisecond)
	v2, m2 := count()
	poisoned = true
	if v1 > 0 && v2 > 0 && m1 > 0 && m2 > 0 {
		return pbt.Failf("deadlock", "ShiftMatchingTreasures(Cap) removed the last %d records and auto-destroys the swamp while still holding the cap mutex: swamp.Destroy waits in WaitForActiveVigilsClosed for the vigil of a second "+
			"cap-bearing request (%s) that began its vigil and now waits for the cap mutex — neither request ever returns (fired %v)", s.N, s.Kind, rep.Fired)
	}
	return pbt.Failf("hang", "requests did not return within 11 s (vigil waiters %d, capMu waiters %d; fired %v)", v2, m2, rep.Fired)
}

func TestC12WitnessZDestroyDeadlock(t *testing.T) {
	pbt.Witness(t, pbt.Spec[C12DestroyDL]{
		ID: "C12", Facet: "witness-cap-shift-autodestroy-deadlock",
		Rule: "2–6 records and NO anchor; ShiftMatchingTreasures(Cap, all) holds capMu, has selected every record and is paused before its first removal until a second cap-bearing request " +
			"(PatchTreasures / PatchExpired / ShiftMatching with the same Cap) has begun its vigil and asks for capMu; stops after the first reproduction",
		Quick: 3, Thorough: 3,
		Gen: func(t *rapid.T) C12DestroyDL {
			return C12DestroyDL{N: rapid.IntRange(2, 6).Draw(t, "n"), Kind: rapid.SampledFrom([]string{"patch", "pe", "sm"}).Draw(t, "kind"), Mem: rapid.Bool().Draw(t, "mem")}
		},
		Run: runC12DestroyDL,
	}, "cap-shift-autodestroy-vs-capmu-deadlock", "deadlock")
}

// --- witness: the PatchTreasures pre-count ignores records the read-path evaluator counts ------------

func genC12WitnessEvaluatorMismatch(t *rapid.T) C12Seq {
	var s C12Seq
	s.Mem = rapid.Bool().Draw(t, "mem")
	leg := Leg{Field: rapid.SampledFrom([]string{"owner", "status"}).Draw(t, "empty-field"), Op: "empty"}
	s.Cap = Filt{Or: true, Legs: []Leg{{Field: "status", Op: "eq", S: "leased"}, leg}}
	s.Max = int32(rapid.IntRange(1, 3).Draw(t, "max"))
	for i := 0; i < int(s.Max); i++ { // the cap is used up by records whose value is not a msgpack map
		s.Recs = append(s.Recs, C11Rec{Cre: -4200 - i, Alt: rapid.SampledFrom([]string{"int", "str", "raw"}).Draw(t, "alt")})
	}
	k := rapid.IntRange(1, 3).Draw(t, "ready")
	b := C12Batch{Kind: "patch"}
	for i := 0; i < k; i++ {
		s.Recs = append(s.Recs, C11Rec{Cre: -5000 - i, B: Body{Status: "ready", Owner: "none", N: int64(i)}})
		b.Patches = append(b.Patches, C12Patch{Key: int(s.Max) + i, Ops: []POp{{Kind: "set-status", S: "leased"}}})
	}
	s.Batches = []C12Batch{b}
	return s
}

func TestC12WitnessEvaluatorMismatch(t *testing.T) {
	pbt.Witness(t, pbt.Spec[C12Seq]{
		ID: "C12", Facet: "witness-cap-precount-evaluator-mismatch",
		Rule: "sequential: MaxMatching records whose value is an int64 / a string / bytes without the msgpack magic (they satisfy the IS_EMPTY leg of Cap.Filter for reads, Shift* and PatchExpired) " +
			"+ 1–3 msgpack records with status \"ready\"; one PatchTreasures(Cap{status EQUAL \"leased\" OR <field> IS_EMPTY}) sets status=\"leased\" on the latter",
		Quick: 12, Thorough: 100, Gen: genC12WitnessEvaluatorMismatch, Run: runC12Seq,
	}, "cap-precount-evaluator-mismatch", "budget", "cap-exceeded")
}
