//go:build verifvsched

package claims

import (
	"fmt"
	"sync"
	"testing"
	"time"

	"github.com/hydraide/hydraide/app/verifshim/vsched"
	hydrapb "github.com/hydraide/hydraide/sdk/go/hydraidego/v3/hydraidepbgo"
	"pgregory.net/rapid"

	"verifharness/internal/pbt"
	"verifharness/internal/rig"
)

// Witness of the finding bucket-build-vs-guard-holder-deadlock. It runs last in
// the package (file name) because a reproduced deadlock leaves two requests
// parked inside the engine for the rest of the process.

type C11BucketDL struct {
	N      int    `json:"n"`
	Victim int    `json:"victim"`
	Kind   string `json:"kind"` // sm | pe: the request whose filter triggers the first bucket build
	Mem    bool   `json:"mem,omitempty"`
}

func runC11BucketDL(s C11BucketDL) pbt.Outcome {
	e := getEnv()
	if poisoned {
		return pbt.Outcome{Skip: true}
	}
	sn := freshSwamp("c11b-", s.Mem)
	isl := rig.Island(sn)
	now := time.Now().UnixNano()
	var recs []seedRec
	for i := 0; i < s.N; i++ {
		recs = append(recs, seedRec{Key: keyOf(i), Body: Body{Status: "ready", Owner: "none", N: int64(i)}, Exp: now - int64(100+i)*1e9, Created: now - int64(9000+i)*1e9})
	}
	recs = append(recs, seedRec{Key: anchorKeys[0], Body: anchorBody})
	if err := e.seed(sn, recs); err != nil {
		return pbt.Failf("harness", "seed: %v", err)
	}
	for _, it := range []hydrapb.IndexType_Type{hydrapb.IndexType_KEY, hydrapb.IndexType_EXPIRATION_TIME} {
		e.r.G.GetByIndex(e.ctx, &hydrapb.GetByIndexRequest{IslandID: isl, SwampName: sn, IndexType: it, Limit: 1})
	}
	// the deleter holds the victim's guard and is held back just before it locks the key beacon
	vsched.Activate([]vsched.Action{{Site: "beacon:Delete:Lock:e380a5", Hit: 1, Kind: "pause", Until: "site:beacon:CloneUnorderedTreasures:StartTreasureGuard:3069de", MaxWaitMs: 1500}}, false)
	f := (&Filt{Legs: []Leg{{Field: "status", Op: "eq", S: "ready"}, {Field: "n", Op: "ge", I: 0}}}).proto()
	var wg sync.WaitGroup
	wg.Add(2)
	go func() {
		defer wg.Done()
		time.Sleep(3 * time.Millisecond)
		if s.Kind == "pe" {
			e.r.G.PatchExpiredTreasures(e.ctx, &hydrapb.PatchExpiredTreasuresRequest{IslandID: isl, SwampName: sn, HowMany: 1, Ops: opsProto([]POp{{Kind: "set-owner", S: "w0"}}), Filters: f})
		} else {
			e.r.G.ShiftMatchingTreasures(e.ctx, &hydrapb.ShiftMatchingTreasuresRequest{IslandID: isl, SwampName: sn, IndexType: hydrapb.IndexType_KEY, HowMany: 1, Filters: f})
		}
	}()
	go func() {
		defer wg.Done()
		e.r.G.Delete(e.ctx, &hydrapb.DeleteRequest{Swamps: []*hydrapb.DeleteRequest_SwampKeys{{IslandID: isl, SwampName: sn, Keys: []string{keyOf(s.Victim)}}}})
	}()
	done := make(chan struct{})
	go func() { wg.Wait(); close(done) }()
	hung := false
	select {
	case <-done:
	case <-time.After(6 * time.Second):
		hung = true
	}
	rep := vsched.Deactivate()
	if !hung {
		e.destroy(sn)
		return pbt.Outcome{NonTrivial: len(rep.Fired) > 0, Classes: []string{"no-deadlock"}}
	}
	select {
	case <-done:
		e.destroy(sn)
		return pbt.Outcome{NonTrivial: true, Classes: []string{"slow-but-finished"}}
	case <-time.After(2 * time.Second):
	}
	c1 := goroutinesIn("beacon.(*beacon).CloneUnorderedTreasures", "sync.Cond.Wait")
	d1 := goroutinesIn("beacon.(*beacon).Delete", "sync.RWMutex") + goroutinesIn("beacon.(*beacon).Delete", "sync.Mutex")
	time.Sleep(300 * time.Millisecond)
	c2 := goroutinesIn("beacon.(*beacon).CloneUnorderedTreasures", "sync.Cond.Wait")
	d2 := goroutinesIn("beacon.(*beacon).Delete", "sync.RWMutex") + goroutinesIn("beacon.(*beacon).Delete", "sync.Mutex")
	poisoned = true
	if c1 > 0 && c2 > 0 && d1 > 0 && d2 > 0 {
		return pbt.Failf("deadlock", "the first filter-driven bucket build (GetOrBuildBucket -> beaconKey.CloneUnorderedTreasures holds the key beacon's mutex and waits for the guard of %s) "+
			"and Delete(%s) (deleteHandler holds that guard and waits for the key beacon's mutex in beacon.Delete) block each other forever; neither request returns (fired %v)", keyOf(s.Victim), keyOf(s.Victim), rep.Fired)
	}
	return pbt.Failf("hang", "requests did not return within 8 s (clone waiters %d, delete waiters %d)", c2, d2)
}

func TestC11WitnessBucketBuildDeadlock(t *testing.T) {
	pbt.Witness(t, pbt.Spec[C11BucketDL]{
		ID: "C11", Facet: "witness-bucket-build-deadlock",
		Rule: "3–8 expired records, indexes built, NO bucket built yet; a ShiftMatching / PatchExpired with an index-accelerated filter (first bucket build) starts while a Delete holds its record guard and is paused " +
			"just before beacon.Delete on the key beacon; stops after the first reproduction",
		Quick: 3, Thorough: 3,
		Gen: func(t *rapid.T) C11BucketDL {
			n := rapid.IntRange(3, 8).Draw(t, "n")
			return C11BucketDL{N: n, Victim: rapid.IntRange(0, n-1).Draw(t, "victim"), Kind: rapid.SampledFrom([]string{"sm", "pe"}).Draw(t, "kind"), Mem: rapid.Bool().Draw(t, "mem")}
		},
		Run: runC11BucketDL,
	}, "bucket-build-vs-guard-holder-deadlock", "deadlock")
}

var _ = fmt.Sprintf
