package claims

import (
	"context"
	"fmt"
	"io"
	"os"
	"runtime"
	"sort"
	"strings"
	"sync"
	"sync/atomic"
	"time"

	hydrapb "github.com/hydraide/hydraide/sdk/go/hydraidego/v3/hydraidepbgo"
	"google.golang.org/protobuf/types/known/timestamppb"

	"verifharness/internal/rig"
)

// One rig per test process (shared by all test functions of this package);
// every case uses a fresh swamp name and destroys it at the end.

type env struct {
	r   *rig.Rig
	ctx context.Context

	clOnce sync.Once
	cl     hydrapb.HydraideServiceClient
}

// filteredKeys returns the sorted keys a filtered read (GetByIndexStream over the KEY index) yields.
func (e *env) filteredKeys(sn string, f *hydrapb.FilterGroup) ([]string, error) {
	e.clOnce.Do(func() { e.cl = e.r.Serve() })
	ctx, cancel := context.WithTimeout(e.ctx, 30*time.Second)
	defer cancel()
	st, err := e.cl.GetByIndexStream(ctx, &hydrapb.GetByIndexStreamRequest{IslandID: rig.Island(sn), SwampName: sn, IndexType: hydrapb.IndexType_KEY, Filters: f, KeysOnly: true})
	if err != nil {
		return nil, err
	}
	var keys []string
	for {
		m, err := st.Recv()
		if err == io.EOF {
			break
		}
		if err != nil {
			return nil, err
		}
		keys = append(keys, m.GetTreasure().GetKey())
	}
	sort.Strings(keys)
	return keys, nil
}

var (
	envOnce     sync.Once
	theEnv      *env
	caseCounter atomic.Int64
)

func getEnv() *env {
	envOnce.Do(func() {
		r := rig.New(rig.Options{Patterns: []rig.Pattern{
			{Pattern: "clm/p/*", CloseAfterIdleSec: 600, WriteIntervalSec: 1},
			{Pattern: "clm/m/*", CloseAfterIdleSec: 600, InMemory: true},
		}})
		theEnv = &env{r: r, ctx: context.Background()}
	})
	return theEnv
}

// poisoned is set when a case left requests deadlocked inside the engine: the
// graceful stop would wait for them forever, so closeEnv only removes the data root.
var poisoned bool

func closeEnv() {
	if theEnv == nil {
		return
	}
	if poisoned {
		os.RemoveAll(theEnv.r.Root)
		return
	}
	theEnv.r.Cleanup()
}

// freshSwamp returns a new swamp name; mem selects the in-memory pattern.
func freshSwamp(tag string, mem bool) string {
	n := caseCounter.Add(1)
	if mem {
		return fmt.Sprintf("clm/m/%s%d", tag, n)
	}
	return fmt.Sprintf("clm/p/%s%d", tag, n)
}

func (e *env) destroy(sn string) {
	if poisoned {
		return // the swamp may hold deadlocked requests: Destroy would wait for them forever
	}
	ctx, cancel := context.WithTimeout(e.ctx, 20*time.Second)
	defer cancel()
	_, _ = e.r.G.Destroy(ctx, &hydrapb.DestroyRequest{IslandID: rig.Island(sn), SwampName: sn})
}

func nanosToTS(n int64) *timestamppb.Timestamp {
	if n == 0 {
		return nil
	}
	return timestamppb.New(time.Unix(0, n))
}

func tsToNanos(t *timestamppb.Timestamp) int64 {
	if t == nil {
		return 0
	}
	return t.AsTime().UnixNano()
}

// seedRec is one record written before the concurrent phase.
type seedRec struct {
	Key     string
	Alt     string // "" = msgpack body; "int" | "str" | "raw": a value that is not a msgpack map
	Body    Body
	Exp     int64 // unix nanos, 0 = none
	Created int64 // unix nanos, 0 = none
}

func (e *env) seed(sn string, recs []seedRec) error {
	var kvs []*hydrapb.KeyValuePair
	for _, r := range recs {
		kv := &hydrapb.KeyValuePair{Key: r.Key}
		switch r.Alt {
		case "int":
			v := int64(7)
			kv.Int64Val = &v
		case "str":
			v := "plain string value"
			kv.StringVal = &v
		case "raw":
			kv.BytesVal = []byte("raw bytes, no msgpack magic")
		default:
			kv.BytesVal = wrapBody(encodeBody(r.Body))
		}
		kv.ExpiredAt = nanosToTS(r.Exp)
		kv.CreatedAt = nanosToTS(r.Created)
		kvs = append(kvs, kv)
	}
	resp, err := e.r.G.Set(e.ctx, &hydrapb.SetRequest{Swamps: []*hydrapb.SwampRequest{{
		IslandID: rig.Island(sn), SwampName: sn, KeyValues: kvs, CreateIfNotExist: true, Overwrite: true,
	}}})
	if err != nil {
		return err
	}
	if resp == nil || len(resp.Swamps) != 1 || len(resp.Swamps[0].KeysAndStatuses) != len(recs) {
		return fmt.Errorf("seed: unexpected Set response %v", resp)
	}
	for _, ks := range resp.Swamps[0].KeysAndStatuses {
		if ks.Status != hydrapb.Status_NEW {
			return fmt.Errorf("seed: key %s status %v, want NEW", ks.Key, ks.Status)
		}
	}
	return nil
}

// getAll returns the current content of a swamp (key -> treasure); nil map when the swamp does not exist.
func (e *env) getAll(sn string) (map[string]*hydrapb.Treasure, error) {
	resp, err := e.r.G.GetAll(e.ctx, &hydrapb.GetAllRequest{IslandID: rig.Island(sn), SwampName: sn})
	if err != nil {
		if strings.Contains(err.Error(), "FailedPrecondition") || strings.Contains(err.Error(), "not found") || strings.Contains(err.Error(), "does not exist") {
			return nil, nil
		}
		return nil, err
	}
	if resp == nil {
		return nil, fmt.Errorf("GetAll returned (nil, nil)")
	}
	m := map[string]*hydrapb.Treasure{}
	for _, t := range resp.Treasures {
		m[t.Key] = t
	}
	return m, nil
}

// goroutinesIn returns how many goroutines currently have a frame whose
// function name contains fn and are in the given wait state ("" = any).
func goroutinesIn(fn, state string) int {
	buf := make([]byte, 1<<20)
	for {
		n := runtime.Stack(buf, true)
		if n < len(buf) {
			buf = buf[:n]
			break
		}
		buf = make([]byte, 2*len(buf))
	}
	c := 0
	for _, g := range strings.Split(string(buf), "\n\n") {
		if !strings.Contains(g, fn) {
			continue
		}
		hdr := g
		if i := strings.Index(g, "\n"); i >= 0 {
			hdr = g[:i]
		}
		if state == "" || strings.Contains(hdr, "["+state) {
			c++
		}
	}
	return c
}

func allStacks() string {
	buf := make([]byte, 4<<20)
	n := runtime.Stack(buf, true)
	return string(buf[:n])
}
