package claims

import (
	"fmt"
	"strings"

	hydrapb "github.com/hydraide/hydraide/sdk/go/hydraidego/v3/hydraidepbgo"
)

// Leg is one leaf predicate over a Body. Field is "status" | "owner" | "n".
// Ops on strings: eq, ne, in. Ops on n: eq, ne, gt, ge, lt, le, in64.
type Leg struct {
	Field string   `json:"f"`
	Op    string   `json:"op"`
	S     string   `json:"s,omitempty"`
	In    []string `json:"in,omitempty"`
	I     int64    `json:"i,omitempty"`
	In64  []int64  `json:"in64,omitempty"`
}

// Filt is an AND/OR tree of legs (a nil *Filt means "no filter").
type Filt struct {
	Or   bool   `json:"or,omitempty"`
	Legs []Leg  `json:"legs,omitempty"`
	Subs []Filt `json:"subs,omitempty"`
}

func (l Leg) String() string {
	switch l.Op {
	case "in":
		return fmt.Sprintf("%s in %v", l.Field, l.In)
	case "in64":
		return fmt.Sprintf("%s in %v", l.Field, l.In64)
	case "empty":
		return l.Field + " IS_EMPTY"
	case "notempty":
		return l.Field + " IS_NOT_EMPTY"
	}
	if l.Field == "n" {
		return fmt.Sprintf("n %s %d", l.Op, l.I)
	}
	return fmt.Sprintf("%s %s %q", l.Field, l.Op, l.S)
}

func (f *Filt) String() string {
	if f == nil {
		return "<none>"
	}
	var parts []string
	for _, l := range f.Legs {
		parts = append(parts, l.String())
	}
	for i := range f.Subs {
		parts = append(parts, "("+f.Subs[i].String()+")")
	}
	j := " AND "
	if f.Or {
		j = " OR "
	}
	return strings.Join(parts, j)
}

// evalLeg is the independent evaluator of one leg. Bodies in these checks
// always carry all three fields with the expected kinds, so the semantics of
// missing fields / cross-kind comparison never matter.
func evalLeg(l Leg, b Body) bool {
	switch l.Op {
	case "empty", "notempty":
		// present field: "nil/unset or empty string" — an integer is never empty
		e := false
		switch l.Field {
		case "status":
			e = b.Status == ""
		case "owner":
			e = b.Owner == ""
		}
		return e == (l.Op == "empty")
	}
	if l.Field == "n" {
		v := b.N
		switch l.Op {
		case "eq":
			return v == l.I
		case "ne":
			return v != l.I
		case "gt":
			return v > l.I
		case "ge":
			return v >= l.I
		case "lt":
			return v < l.I
		case "le":
			return v <= l.I
		case "in64":
			for _, x := range l.In64 {
				if v == x {
					return true
				}
			}
			return false
		}
		panic("evalLeg: bad op on n: " + l.Op)
	}
	var v string
	switch l.Field {
	case "status":
		v = b.Status
	case "owner":
		v = b.Owner
	default:
		panic("evalLeg: bad field " + l.Field)
	}
	switch l.Op {
	case "eq":
		return v == l.S
	case "ne":
		return v != l.S
	case "in":
		for _, x := range l.In {
			if v == x {
				return true
			}
		}
		return false
	}
	panic("evalLeg: bad op on string: " + l.Op)
}

// evalFilt: AND = all legs and all sub-groups; OR = at least one; nil = true.
// Generators never build an empty group.
func evalFilt(f *Filt, b Body) bool {
	if f == nil {
		return true
	}
	if f.Or {
		for _, l := range f.Legs {
			if evalLeg(l, b) {
				return true
			}
		}
		for i := range f.Subs {
			if evalFilt(&f.Subs[i], b) {
				return true
			}
		}
		return false
	}
	for _, l := range f.Legs {
		if !evalLeg(l, b) {
			return false
		}
	}
	for i := range f.Subs {
		if !evalFilt(&f.Subs[i], b) {
			return false
		}
	}
	return true
}

// fields lists the body fields a filter reads.
func (f *Filt) fields(into map[string]bool) {
	if f == nil {
		return
	}
	for _, l := range f.Legs {
		into[l.Field] = true
	}
	for i := range f.Subs {
		f.Subs[i].fields(into)
	}
}

func legProto(l Leg) *hydrapb.TreasureFilter {
	p := l.Field
	tf := &hydrapb.TreasureFilter{BytesFieldPath: &p}
	switch l.Op {
	case "empty":
		tf.Operator = hydrapb.Relational_IS_EMPTY
		return tf
	case "notempty":
		tf.Operator = hydrapb.Relational_IS_NOT_EMPTY
		return tf
	}
	if l.Field == "n" {
		switch l.Op {
		case "eq":
			tf.Operator = hydrapb.Relational_EQUAL
		case "ne":
			tf.Operator = hydrapb.Relational_NOT_EQUAL
		case "gt":
			tf.Operator = hydrapb.Relational_GREATER_THAN
		case "ge":
			tf.Operator = hydrapb.Relational_GREATER_THAN_OR_EQUAL
		case "lt":
			tf.Operator = hydrapb.Relational_LESS_THAN
		case "le":
			tf.Operator = hydrapb.Relational_LESS_THAN_OR_EQUAL
		case "in64":
			tf.Operator = hydrapb.Relational_INT64_IN
			tf.Int64InVals = append([]int64(nil), l.In64...)
			return tf
		}
		tf.CompareValue = &hydrapb.TreasureFilter_Int64Val{Int64Val: l.I}
		return tf
	}
	switch l.Op {
	case "eq":
		tf.Operator = hydrapb.Relational_EQUAL
		tf.CompareValue = &hydrapb.TreasureFilter_StringVal{StringVal: l.S}
	case "ne":
		tf.Operator = hydrapb.Relational_NOT_EQUAL
		tf.CompareValue = &hydrapb.TreasureFilter_StringVal{StringVal: l.S}
	case "in":
		tf.Operator = hydrapb.Relational_STRING_IN
		tf.StringInVals = append([]string(nil), l.In...)
	}
	return tf
}

func (f *Filt) proto() *hydrapb.FilterGroup {
	if f == nil {
		return nil
	}
	g := &hydrapb.FilterGroup{Logic: hydrapb.FilterLogic_AND}
	if f.Or {
		g.Logic = hydrapb.FilterLogic_OR
	}
	for _, l := range f.Legs {
		g.Filters = append(g.Filters, legProto(l))
	}
	for i := range f.Subs {
		g.SubGroups = append(g.SubGroups, f.Subs[i].proto())
	}
	return g
}

// ---------------------------------------------------------------------------
// patch ops and conditions

// POp is one structural mutation of a Body: "set-status" / "set-owner" (S) or "inc-n" (I).
type POp struct {
	Kind string `json:"k"`
	S    string `json:"s,omitempty"`
	I    int64  `json:"i,omitempty"`
}

func applyOps(ops []POp, b Body) Body {
	for _, o := range ops {
		switch o.Kind {
		case "set-status":
			b.Status = o.S
		case "set-owner":
			b.Owner = o.S
		case "inc-n":
			b.N += o.I
		default:
			panic("applyOps: bad op " + o.Kind)
		}
	}
	return b
}

func opsTouch(ops []POp) map[string]bool {
	m := map[string]bool{}
	for _, o := range ops {
		switch o.Kind {
		case "set-status":
			m["status"] = true
		case "set-owner":
			m["owner"] = true
		case "inc-n":
			m["n"] = true
		}
	}
	return m
}

func opsProto(ops []POp) []*hydrapb.PatchOp {
	var out []*hydrapb.PatchOp
	for _, o := range ops {
		switch o.Kind {
		case "set-status":
			out = append(out, &hydrapb.PatchOp{Op: hydrapb.PatchOp_SET, Path: "status", Value: mpStr(nil, o.S)})
		case "set-owner":
			out = append(out, &hydrapb.PatchOp{Op: hydrapb.PatchOp_SET, Path: "owner", Value: mpStr(nil, o.S)})
		case "inc-n":
			out = append(out, &hydrapb.PatchOp{Op: hydrapb.PatchOp_INC, Path: "n", Value: mpInt64(nil, o.I)})
		}
	}
	return out
}

// PCond is an optional per-record pre-check: status/owner eq|ne S, or n ge|lt I.
type PCond struct {
	Field string `json:"f"`
	Op    string `json:"op"`
	S     string `json:"s,omitempty"`
	I     int64  `json:"i,omitempty"`
}

func evalCond(c *PCond, b Body) bool {
	if c == nil {
		return true
	}
	return evalLeg(Leg{Field: c.Field, Op: c.Op, S: c.S, I: c.I}, b)
}

func (c *PCond) proto() *hydrapb.PatchCondition {
	if c == nil {
		return nil
	}
	pc := &hydrapb.PatchCondition{Path: c.Field}
	switch c.Op {
	case "eq":
		pc.Operator = hydrapb.PatchCondition_EQUAL
	case "ne":
		pc.Operator = hydrapb.PatchCondition_NOT_EQUAL
	case "gt":
		pc.Operator = hydrapb.PatchCondition_GREATER_THAN
	case "ge":
		pc.Operator = hydrapb.PatchCondition_GREATER_THAN_OR_EQUAL
	case "lt":
		pc.Operator = hydrapb.PatchCondition_LESS_THAN
	case "le":
		pc.Operator = hydrapb.PatchCondition_LESS_THAN_OR_EQUAL
	}
	if c.Field == "n" {
		pc.Threshold = mpInt64(nil, c.I)
	} else {
		pc.Threshold = mpStr(nil, c.S)
	}
	return pc
}

func (c *PCond) String() string {
	if c == nil {
		return "<none>"
	}
	return Leg{Field: c.Field, Op: c.Op, S: c.S, I: c.I}.String()
}

// evalFiltPartial evaluates a filter on a body that may lack fields: a leg on a missing
// field is false ("if the path doesn't exist, the filter returns false" — proto, TreasureFilter.BytesFieldPath).
func evalFiltPartial(f *Filt, b Body, has fieldSet) bool {
	if f == nil {
		return true
	}
	leg := func(l Leg) bool {
		missing := false
		switch l.Field {
		case "status":
			missing = !has.St
		case "owner":
			missing = !has.Ow
		case "n":
			missing = !has.N
		}
		if missing {
			return l.Op == "empty" // an unset field IS_EMPTY; every other operator is false on it
		}
		return evalLeg(l, b)
	}
	if f.Or {
		for _, l := range f.Legs {
			if leg(l) {
				return true
			}
		}
		for i := range f.Subs {
			if evalFiltPartial(&f.Subs[i], b, has) {
				return true
			}
		}
		return false
	}
	for _, l := range f.Legs {
		if !leg(l) {
			return false
		}
	}
	for i := range f.Subs {
		if !evalFiltPartial(&f.Subs[i], b, has) {
			return false
		}
	}
	return true
}

// applyOpsPartial applies ops and records which fields exist afterwards (SET creates the
// field; INC on a missing field creates it with the delta).
func applyOpsPartial(ops []POp, b Body, has fieldSet) (Body, fieldSet) {
	for _, o := range ops {
		switch o.Kind {
		case "set-status":
			b.Status, has.St = o.S, true
		case "set-owner":
			b.Owner, has.Ow = o.S, true
		case "inc-n":
			if !has.N {
				b.N = 0
			}
			b.N += o.I
			has.N = true
		}
	}
	return b, has
}

// evalFiltOpaque evaluates a filter on a record whose value is not a msgpack map (typed value,
// bytes without the msgpack magic): for the evaluator behind reads, Shift* and PatchExpired every
// body-field leg is then false except IS_EMPTY, which is true ("field is nil/unset").
func evalFiltOpaque(f *Filt) bool {
	if f == nil {
		return true
	}
	leg := func(l Leg) bool { return l.Op == "empty" }
	if f.Or {
		for _, l := range f.Legs {
			if leg(l) {
				return true
			}
		}
		for i := range f.Subs {
			if evalFiltOpaque(&f.Subs[i]) {
				return true
			}
		}
		return false
	}
	for _, l := range f.Legs {
		if !leg(l) {
			return false
		}
	}
	for i := range f.Subs {
		if !evalFiltOpaque(&f.Subs[i]) {
			return false
		}
	}
	return true
}

// hasEmptyLeg reports whether the filter contains an IS_EMPTY leg.
func (f *Filt) hasEmptyLeg() bool {
	if f == nil {
		return false
	}
	for _, l := range f.Legs {
		if l.Op == "empty" {
			return true
		}
	}
	for i := range f.Subs {
		if f.Subs[i].hasEmptyLeg() {
			return true
		}
	}
	return false
}
