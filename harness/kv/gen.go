package kv

import (
	"math"

	"pgregory.net/rapid"
)

// KeyPool / value pools shared by the three checks.
var KeyPool = []string{"k0", "k1", "K-2", "k/3", "ключ4", "key five 5"}

var SlicePool = []uint32{1, 2, 3, 7, 0, 4294967295}

var byPool = []string{"alice", "bob", "svc-ü"}

var strPool = []string{"", "a", "b", "héllo wörld", "0123456789012345678901234567890123456789"}

var bytesPool = [][]byte{{}, {0}, {1, 2, 3}, {0xC7, 0x00, 0x80}, {0xC7, 0x00, 0x81, 0xa2, 'f', '0', 0x05}, make([]byte, 300)}

var i64Pool = map[Kind][]int64{
	KInt8:  {0, -128, -1, 1, 5, 100, 127},
	KInt16: {0, -32768, -1, 1, 300, 32767},
	KInt32: {0, math.MinInt32, -1, 1, 70000, math.MaxInt32},
	KInt64: {0, math.MinInt64, -1, 1, 1 << 40, math.MaxInt64},
}
var u64Pool = map[Kind][]uint64{
	KUint8:  {0, 1, 200, 255},
	KUint16: {0, 1, 300, 65535},
	KUint32: {0, 1, 1 << 31, math.MaxUint32},
	KUint64: {0, 1, 1 << 63, math.MaxUint64},
}
var f32Pool = []float32{0, 1.5, -2.25, 3.0e38, 1e-45, 16777216}
var f64Pool = []float64{0, 1.5, -2.25, 1e308, 5e-324, 9007199254740993}

// GenCfg steers value generation.
type GenCfg struct {
	ZeroPct   int  // percentage of typed values forced to the zero-like value
	Exotic    bool // allow −0.0 and NaN floats
	MetaPct   int  // percentage chance per metadata field
	ExpMode   int  // 0: absolute positive ExpiredAt; 1: none (C30 sets its own)
	FavKind   Kind // numeric kind drawn more often (0 = none)
	FavPct    int
	VoidPct   int
	MsgpackOK bool // bytes values are mostly msgpack bodies (for patch ops)
}

func pick[T any](t *rapid.T, label string, xs []T) T {
	return xs[rapid.IntRange(0, len(xs)-1).Draw(t, label)]
}

func pct(t *rapid.T, label string, p int) bool {
	if p <= 0 {
		return false
	}
	return rapid.IntRange(0, 99).Draw(t, label) < p
}

var absTimes = []When{{Sec: 1}, {Sec: 1000000000, Nano: 5}, {Sec: 1700000000, Nano: 999999999}, {Sec: 4000000000}, {Sec: 0, Nano: 7}}

func GenMeta(t *rapid.T, cfg GenCfg) *Meta {
	m := &Meta{}
	any := false
	if pct(t, "m-cat", cfg.MetaPct) {
		w := pick(t, "cat", absTimes)
		m.CAt, any = &w, true
	}
	if pct(t, "m-uat", cfg.MetaPct) {
		w := pick(t, "uat", absTimes)
		m.UAt, any = &w, true
	}
	if cfg.ExpMode == 0 && pct(t, "m-eat", cfg.MetaPct) {
		w := pick(t, "eat", absTimes)
		m.EAt, any = &w, true
	}
	if pct(t, "m-cby", cfg.MetaPct) {
		s := pick(t, "cby", byPool)
		m.CBy, any = &s, true
	}
	if pct(t, "m-uby", cfg.MetaPct) {
		s := pick(t, "uby", byPool)
		m.UBy, any = &s, true
	}
	if !any {
		return nil
	}
	return m
}

func GenVal(t *rapid.T, cfg GenCfg) Val {
	var k Kind
	switch {
	case cfg.FavKind != 0 && pct(t, "fav", cfg.FavPct):
		k = cfg.FavKind
	case pct(t, "void", cfg.VoidPct):
		k = KVoid
	default:
		k = Kind(rapid.IntRange(1, 14).Draw(t, "kind"))
	}
	v := Val{T: int(k)}
	zero := pct(t, "zero", cfg.ZeroPct)
	switch {
	case k == KVoid:
		v.NoVoidFlag = rapid.IntRange(0, 3).Draw(t, "novoidflag") == 0
	case k.IsSigned():
		if !zero {
			v.I = pick(t, "ival", i64Pool[k][1:])
		}
	case k.IsUnsigned():
		if !zero {
			v.U = pick(t, "uval", u64Pool[k][1:])
		}
	case k == KFloat32:
		f := float32(0)
		if !zero {
			f = pick(t, "f32", f32Pool[1:])
		} else if cfg.Exotic && rapid.Bool().Draw(t, "negzero") {
			f = float32(math.Copysign(0, -1))
		}
		if cfg.Exotic && !zero && rapid.IntRange(0, 9).Draw(t, "nan32") == 0 {
			f = float32(math.NaN())
		}
		v.FB = uint64(math.Float32bits(f))
	case k == KFloat64:
		f := 0.0
		if !zero {
			f = pick(t, "f64", f64Pool[1:])
		} else if cfg.Exotic && rapid.Bool().Draw(t, "negzero") {
			f = math.Copysign(0, -1)
		}
		if cfg.Exotic && !zero && rapid.IntRange(0, 9).Draw(t, "nan64") == 0 {
			f = math.NaN()
		}
		v.FB = math.Float64bits(f)
	case k == KString:
		if !zero {
			v.S = pick(t, "sval", strPool[1:])
		}
	case k == KBool:
		if !zero {
			v.I = 1
		}
	case k == KBytes:
		if !zero {
			if cfg.MsgpackOK && rapid.IntRange(0, 3).Draw(t, "mp") != 0 {
				v.B = pick(t, "bval", bytesPool[3:5])
			} else {
				v.B = pick(t, "bval", bytesPool[1:])
			}
		}
	case k == KSlice:
		if !zero {
			v.L = rapid.SliceOfN(rapid.SampledFrom(SlicePool), 1, 4).Draw(t, "lval")
		}
	}
	v.M = GenMeta(t, cfg)
	return v
}

func GenKeys(t *rapid.T, label string, min, max int) []int {
	return rapid.SliceOfNDistinct(rapid.IntRange(0, len(KeyPool)-1), min, max, func(i int) int { return i }).Draw(t, label)
}

func GenIncMeta(t *rapid.T, label string, p int, exp func(*rapid.T) *When) *IncMetaSpec {
	if !pct(t, label, p) {
		return nil
	}
	m := &IncMetaSpec{CAt: rapid.Bool().Draw(t, label+"cat"), UAt: rapid.Bool().Draw(t, label+"uat")}
	if rapid.Bool().Draw(t, label+"hascby") {
		m.CBy = pick(t, label+"cby", byPool)
	}
	if rapid.Bool().Draw(t, label+"hasuby") {
		m.UBy = pick(t, label+"uby", byPool)
	}
	if exp != nil {
		m.EAt = exp(t)
	}
	return m
}

func GenInc(t *rapid.T, cfg GenCfg, exp func(*rapid.T) *When) *IncSpec {
	var k Kind
	if cfg.FavKind.IsNumeric() && pct(t, "incfav", 60) {
		k = cfg.FavKind
	} else {
		k = Kind(rapid.IntRange(1, 10).Draw(t, "inckind"))
	}
	sp := &IncSpec{Kind: int(k)}
	switch {
	case k.IsSigned():
		sp.ByI = pick(t, "byi", []int64{1, 1, -1, 5, -7, 100, i64Pool[k][len(i64Pool[k])-1]})
	case k.IsUnsigned():
		sp.ByU = pick(t, "byu", []uint64{1, 1, 3, 200, u64Pool[k][len(u64Pool[k])-1]})
	default:
		sp.ByF = math.Float64bits(pick(t, "byf", []float64{1.5, -0.25, 2, 3.0e38}))
	}
	if pct(t, "hascond", 55) {
		sp.HasC = true
		sp.COp = rapid.IntRange(0, 5).Draw(t, "cop")
		switch {
		case k.IsSigned():
			sp.RefI = pick(t, "refi", []int64{0, 1, -1, 5, 6, 100})
		case k.IsUnsigned():
			sp.RefU = pick(t, "refu", []uint64{0, 1, 2, 3, 200})
		default:
			sp.RefF = math.Float64bits(pick(t, "reff", []float64{0, 1.5, 3, -0.25}))
		}
	}
	sp.IfNot = GenIncMeta(t, "ifnot", 35, exp)
	sp.IfEx = GenIncMeta(t, "ifex", 35, exp)
	return sp
}

func GenSliceParts(t *rapid.T, nmax int, allowEmpty bool) []SlicePart {
	keys := GenKeys(t, "slkeys", 1, nmax)
	var out []SlicePart
	min := 1
	if allowEmpty {
		min = 0
	}
	for _, k := range keys {
		out = append(out, SlicePart{Key: k, Vals: rapid.SliceOfN(rapid.SampledFrom(SlicePool), min, 4).Draw(t, "slvals")})
	}
	return out
}

func GenPatchMeta(t *rapid.T, label string, p int, exp func(*rapid.T) *When) *PatchMetaSpec {
	if !pct(t, label, p) {
		return nil
	}
	m := &PatchMetaSpec{UAt: rapid.Bool().Draw(t, label+"uat"), CAt: rapid.Bool().Draw(t, label+"cat")}
	if rapid.Bool().Draw(t, label+"hasuby") {
		s := pick(t, label+"uby", byPool)
		m.UBy = &s
	}
	if rapid.Bool().Draw(t, label+"hascby") {
		s := pick(t, label+"cby", byPool)
		m.CBy = &s
	}
	switch rapid.IntRange(0, 3).Draw(t, label+"exp") {
	case 0:
		m.Clear = true
	case 1, 2:
		if exp != nil {
			m.EAt = exp(t)
		}
	}
	if rapid.IntRange(0, 9).Draw(t, label+"both") == 0 && exp != nil {
		m.Clear = true
		m.EAt = exp(t)
	}
	return m
}

func GenPatch(t *rapid.T, exp func(*rapid.T) *When) *PatchSpec {
	p := &PatchSpec{Create: pct(t, "pcreate", 70), Seed: rapid.IntRange(0, 2).Draw(t, "pseed")}
	p.Meta = GenPatchMeta(t, "pm", 40, exp)
	for _, k := range GenKeys(t, "pkeys", 1, 2) {
		it := PatchItem{Key: k}
		n := rapid.IntRange(0, 3).Draw(t, "pnops")
		for i := 0; i < n; i++ {
			it.Ops = append(it.Ops, PatchOpSpec{Kind: rapid.IntRange(0, 3).Draw(t, "pokind"), Field: rapid.IntRange(0, 3).Draw(t, "pofield"),
				N: rapid.IntRange(0, 127).Draw(t, "pon"), Str: pick(t, "postr", strPool)})
		}
		it.Meta = GenPatchMeta(t, "pim", 30, exp)
		p.Items = append(p.Items, it)
	}
	return p
}
