package kv

import (
	"fmt"
	"sync/atomic"
	"testing"
	"time"

	"pgregory.net/rapid"

	"verifharness/internal/pbt"
	"verifharness/internal/rig"
)

// C06 — Single-client API behaves like a simple key-value model.

type C06Scenario struct {
	Modes []int `json:"modes"` // per swamp: 0 in-memory, 1 persistent (write interval 1 s), 2 persistent (write interval 0)
	Ops   []Op  `json:"ops"`
}

var c06Prefix = []string{"c06m/r/", "c06p/r/", "c06z/r/"}

func c06RigOptions() rig.Options {
	return rig.Options{Patterns: []rig.Pattern{
		{Pattern: "c06m/r/*", InMemory: true, CloseAfterIdleSec: 600},
		{Pattern: "c06p/r/*", CloseAfterIdleSec: 600, WriteIntervalSec: 1},
		{Pattern: "c06z/r/*", CloseAfterIdleSec: 600, WriteIntervalSec: 0},
	}}
}

// names of the recorded findings (KNOWN_FINDINGS.txt witness=…)
const (
	fDeadlock   = "uint32slice-delete-deadlock"
	fSticky     = "identical-reset-answers-updated"
	fVoid       = "set-void-keeps-old-value"
	fDupResp    = "set-swamp-error-duplicate-response"
	fLeak       = "failed-condition-increment-mutates-unsaved"
	fSliceOther = "uint32slice-onto-other-type-hidden"
	fTypedZero  = "typed-zero-values-reload-as-void"         // property C05
	fResurrect  = "deleted-recreated-deleted-key-resurrects" // property C05
)

func c06Guards() (Guards, Relax) {
	return Guards{
			SliceDeleteDeadlock:  pbt.Open("C06", fDeadlock),
			VoidKeepsValue:       pbt.Open("C06", fVoid),
			SliceOntoOtherType:   pbt.Open("C06", fSliceOther),
			FailedCondLeak:       pbt.Open("C06", fLeak),
			TypedZeroReload:      pbt.Open("C05", fTypedZero),
			DeleteRecreateDelete: pbt.Open("C05", fResurrect),
		}, Relax{
			StickyStatus: pbt.Open("C06", fSticky),
			DupSwampResp: pbt.Open("C06", fDupResp),
		}
}

func genC06Op(t *rapid.T, nsw int, anyPersist bool, cfg GenCfg) Op {
	sw := func() int { return rapid.IntRange(0, nsw-1).Draw(t, "sw") }
	swParts := func() []int {
		if nsw == 2 && rapid.IntRange(0, 2).Draw(t, "multi") == 0 {
			if rapid.Bool().Draw(t, "swap") {
				return []int{1, 0}
			}
			return []int{0, 1}
		}
		return []int{sw()}
	}
	c := rapid.IntRange(0, 109).Draw(t, "opclass")
	switch {
	case c < 24:
		op := Op{K: "set"}
		for _, s := range swParts() {
			p := SetPart{S: s}
			switch rapid.IntRange(0, 9).Draw(t, "flags") {
			case 0:
				// false,false
			case 1, 2:
				p.Overwrite = true
			case 3, 4:
				p.Create = true
			default:
				p.Create, p.Overwrite = true, true
			}
			for _, k := range GenKeys(t, "setkeys", 1, 3) {
				p.KVs = append(p.KVs, KVSpec{Key: k, V: GenVal(t, cfg)})
			}
			op.Sets = append(op.Sets, p)
		}
		return op
	case c < 31:
		op := Op{K: "get"}
		for _, s := range swParts() {
			op.Parts = append(op.Parts, KeysPart{S: s, Keys: GenKeys(t, "getkeys", 1, 4)})
		}
		return op
	case c < 36:
		return Op{K: "getbykeys", S: sw(), Keys: GenKeys(t, "gbkeys", 1, 5)}
	case c < 45:
		op := Op{K: "delete"}
		for _, s := range swParts() {
			op.Parts = append(op.Parts, KeysPart{S: s, Keys: GenKeys(t, "delkeys", 1, 4)})
		}
		return op
	case c < 49:
		op := Op{K: "count"}
		for _, s := range swParts() {
			op.Parts = append(op.Parts, KeysPart{S: s})
		}
		return op
	case c < 52:
		return Op{K: "isswamp", S: sw()}
	case c < 56:
		return Op{K: "iskey", S: sw(), Key: rapid.IntRange(0, len(KeyPool)-1).Draw(t, "key")}
	case c < 60:
		return Op{K: "arekeys", S: sw(), Keys: GenKeys(t, "akkeys", 1, 5)}
	case c < 74:
		return Op{K: "inc", S: sw(), Key: rapid.IntRange(0, len(KeyPool)-1).Draw(t, "key"), Inc: GenInc(t, cfg, func(t *rapid.T) *When {
			if rapid.Bool().Draw(t, "inc-eat") {
				w := pick(t, "inc-eat-v", absTimes)
				return &w
			}
			return nil
		})}
	case c < 81:
		return Op{K: "push", S: sw(), Sl: GenSliceParts(t, 2, true)}
	case c < 86:
		return Op{K: "sdel", S: sw(), Sl: GenSliceParts(t, 2, true)}
	case c < 89:
		return Op{K: "ssize", S: sw(), Key: rapid.IntRange(0, len(KeyPool)-1).Draw(t, "key")}
	case c < 92:
		return Op{K: "sexist", S: sw(), Key: rapid.IntRange(0, len(KeyPool)-1).Draw(t, "key"), U32: pick(t, "u32", SlicePool)}
	case c < 96:
		return Op{K: "shift", S: sw(), Keys: GenKeys(t, "shkeys", 1, 4)}
	case c < 98:
		return Op{K: "destroy", S: sw()}
	case c < 104:
		if anyPersist {
			return Op{K: "close", S: sw()}
		}
		return Op{K: "isswamp", S: sw()}
	default:
		return Op{K: "shiftexp", S: sw(), N: pick(t, "howmany", []int{0, 0, 1, 2})}
	}
}

func genC06(t *rapid.T) C06Scenario {
	var s C06Scenario
	nsw := rapid.IntRange(1, 2).Draw(t, "nswamps")
	anyPersist := false
	for i := 0; i < nsw; i++ {
		m := pick(t, "mode", []int{0, 1, 1, 1, 2})
		s.Modes = append(s.Modes, m)
		if m != 0 {
			anyPersist = true
		}
	}
	cfg := GenCfg{ZeroPct: 12, MetaPct: 15, VoidPct: 10, FavPct: 35}
	if pbt.Open("C05", fTypedZero) {
		cfg.ZeroPct = 3 // closes are skipped while a typed zero is stored
	}
	if rapid.IntRange(0, 3).Draw(t, "hasfav") != 0 {
		cfg.FavKind = Kind(rapid.IntRange(1, 10).Draw(t, "favkind"))
	} else if rapid.Bool().Draw(t, "favslice") {
		cfg.FavKind = KSlice
	}
	n := rapid.IntRange(1, 40).Draw(t, "nops")
	for i := 0; i < n; i++ {
		s.Ops = append(s.Ops, genC06Op(t, nsw, anyPersist, cfg))
	}
	return s
}

var c06Case atomic.Int64

// runC06 builds the Run function of a facet.
func runC06(h *RigHolder, guards Guards, relax Relax, wd time.Duration) func(C06Scenario) pbt.Outcome {
	return func(s C06Scenario) pbt.Outcome {
		if len(s.Modes) == 0 {
			return pbt.Outcome{Skip: true}
		}
		r := h.Get()
		id := c06Case.Add(1)
		env := &Env{R: r, Keys: KeyPool, Start: time.Now(), Watchdog: wd}
		var persist []bool
		for i, m := range s.Modes {
			env.Swamps = append(env.Swamps, fmt.Sprintf("%sc%d-%d", c06Prefix[m%3], id, i))
			persist = append(persist, m%3 != 0)
		}
		d := NewDriver(env, persist)
		d.G, d.M.Relax = guards, relax
		poisoned := false
		defer func() {
			if !poisoned {
				d.Cleanup()
			}
		}()
		incident := func(i int, op *Op, inc *Incident) pbt.Outcome {
			if inc.Kind == "hang" {
				poisoned = true
				h.Poison()
			}
			return pbt.Failf(inc.Kind, "step %d (%s): %s", i, op.K, inc.Msg)
		}
		for i := range s.Ops {
			op := &s.Ops[i]
			v, inc := d.Step(op)
			if inc != nil {
				return incident(i, op, inc)
			}
			if v.Bad() {
				return pbt.Failf(v.Shape, "step %d (%s): %s", i, op.K, v.Msg)
			}
			v, inc = d.CheckContents()
			if inc != nil {
				return incident(i, op, inc)
			}
			if v.Bad() {
				return pbt.Failf(v.Shape, "after step %d (%s): %s", i, op.K, v.Msg)
			}
		}
		out := pbt.Outcome{NonTrivial: d.Recreated || d.CondFalse || d.SliceEmptied}
		if d.Recreated {
			out.Classes = append(out.Classes, "auto-destroy-then-recreate")
		}
		if d.CondFalse {
			out.Classes = append(out.Classes, "increment-condition-false")
		}
		if d.SliceEmptied {
			out.Classes = append(out.Classes, "slice-delete-empties")
		}
		if d.Closes > 0 {
			out.Classes = append(out.Classes, "has-close-reload")
		}
		if d.ShiftedExpired {
			out.Classes = append(out.Classes, "shift-expired-removed-records")
		}
		for _, m := range s.Modes {
			out.Classes = append(out.Classes, []string{"swamp-in-memory", "swamp-persistent-1s", "swamp-persistent-immediate"}[m%3])
		}
		for c := range d.M.Classes {
			out.Classes = append(out.Classes, c)
		}
		for c := range d.Skipped {
			out.Classes = append(out.Classes, "skipped-open-finding:"+c)
		}
		return out
	}
}

const c06Rule = "rapid-generated sequential histories (1-40 steps) over 1-2 swamps x 6 keys, in-memory / persistent (write interval 1 s and 0), " +
	"mixing Set (all flag combinations, multi-key, multi-swamp, 15 value kinds, metadata), Get, GetByKeys, Delete, Count, IsSwampExist, IsKeyExist, AreKeysExist, " +
	"the ten Increment* RPCs (conditions, metadata), Uint32SlicePush/Delete/Size/IsValueExist, ShiftByKeys, ShiftExpiredTreasures, Destroy and closes of persistent swamps; " +
	"every call under a 10 s watchdog and through a protobuf wire round trip; every response and, after every step, GetAll + IsSwampExist of every swamp are compared with the map model; " +
	"non-trivial = auto-destroy followed by a re-create, or a conditional increment whose condition is false, or a slice delete that empties the slice; distinct = hash of the scenario"

func TestC06Main(t *testing.T) {
	h := NewRigHolder(c06RigOptions())
	defer h.Close()
	g, rx := c06Guards()
	for name, on := range map[string]bool{
		"Uint32SliceDelete emptying a slice / on a non-slice key (open finding " + fDeadlock + ")":                               g.SliceDeleteDeadlock,
		"Set void over a typed value (open finding " + fVoid + ")":                                                               g.VoidKeepsValue,
		"Set slice / push onto a key of another type (open finding " + fSliceOther + ")":                                         g.SliceOntoOtherType,
		"Increment with a false condition on a missing / valueless key or with SetIfExist metadata (open finding " + fLeak + ")": g.FailedCondLeak,
		"close while a typed zero value is stored (open C05 finding " + fTypedZero + ")":                                         g.TypedZeroReload,
		"second removal of a deleted+re-created on-disk key (open C05 finding " + fResurrect + ")":                               g.DeleteRecreateDelete,
		"assertion relaxed: identical re-Set may answer UPDATED (open finding " + fSticky + ")":                                  rx.StickyStatus,
		"assertion relaxed: extra bare response entry after a swamp-level Set error (" + fDupResp + ")":                          rx.DupSwampResp,
	} {
		if on {
			pbt.Excluded("C06", "main", name)
		}
	}
	pbt.Main(t, pbt.Spec[C06Scenario]{
		ID: "C06", Facet: "main", Rule: c06Rule,
		Quick: 8000, Thorough: 100000,
		Gen: genC06, Run: runC06(h, g, rx, 10*time.Second),
	})
	if h.Poisons > 0 {
		pbt.Note("C06", "main: %d rigs abandoned after a hang", h.Poisons)
	}
}

// --- witnesses of recorded findings -------------------------------------------

func sp(s string) *string { return &s }

func setOp(create, over bool, kvs ...KVSpec) Op {
	return Op{K: "set", Sets: []SetPart{{Create: create, Overwrite: over, KVs: kvs}}}
}

var witnessVals = []Val{
	{T: int(KInt8), I: 5}, {T: int(KInt64), I: -9}, {T: int(KUint16), U: 300}, {T: int(KFloat64), FB: 0x3ff8000000000000},
	{T: int(KString), S: "abc"}, {T: int(KBool), I: 1}, {T: int(KBytes), B: []byte{1, 2}},
}

func c06Witness(t *testing.T, name, facet, rule string, n int, wd time.Duration, tweak func(*Guards, *Relax), gen func(*rapid.T) C06Scenario, shapes ...string) {
	h := NewRigHolder(c06RigOptions())
	defer h.Close()
	g, rx := c06Guards()
	tweak(&g, &rx)
	pbt.Witness(t, pbt.Spec[C06Scenario]{
		ID: "C06", Facet: facet, Rule: rule, Quick: n, Thorough: n * 5,
		Gen: gen, Run: runC06(h, g, rx, wd),
	}, name, shapes...)
}

func TestC06WitnessSliceDeleteDeadlock(t *testing.T) {
	gen := func(t *rapid.T) C06Scenario {
		s := C06Scenario{Modes: []int{pick(t, "mode", []int{0, 1})}}
		if rapid.Bool().Draw(t, "nonslice") {
			// Uint32SliceDelete on a key that holds another type
			s.Ops = []Op{setOp(true, true, KVSpec{Key: 0, V: pick(t, "val", witnessVals)}, KVSpec{Key: 1, V: Val{T: int(KInt8), I: 1}}),
				{K: "sdel", Sl: []SlicePart{{Key: 0, Vals: []uint32{1}}}}}
		} else {
			s.Ops = []Op{{K: "push", Sl: []SlicePart{{Key: 0, Vals: []uint32{7, 3}}, {Key: 1, Vals: []uint32{1}}}},
				{K: "sdel", Sl: []SlicePart{{Key: 0, Vals: []uint32{3, 7}}}}}
		}
		return s
	}
	// the deadlock is deterministic: a 2 s watchdog keeps the witness cheap
	c06Witness(t, fDeadlock, "witness-slice-delete-deadlock", "push [7 3] to k0, then Uint32SliceDelete [3 7] from k0 (slice becomes empty) — or Uint32SliceDelete on a key of another type; 2 s watchdog",
		3, 2*time.Second, func(g *Guards, _ *Relax) { g.SliceDeleteDeadlock = false }, gen, "hang")
}

func TestC06WitnessStickyStatus(t *testing.T) {
	gen := func(t *rapid.T) C06Scenario {
		v := pick(t, "val", witnessVals)
		s := C06Scenario{Modes: []int{pick(t, "mode", []int{0, 1, 2})}}
		s.Ops = []Op{setOp(true, true, KVSpec{Key: 0, V: v})}
		if rapid.Bool().Draw(t, "change-first") {
			s.Ops = append(s.Ops, setOp(true, true, KVSpec{Key: 0, V: Val{T: int(KString), S: "other"}}), setOp(true, true, KVSpec{Key: 0, V: v}))
		}
		s.Ops = append(s.Ops, setOp(true, true, KVSpec{Key: 0, V: v}))
		return s
	}
	c06Witness(t, fSticky, "witness-sticky-status", "Set k0=v (create+overwrite) twice in a row without metadata: the second Set must answer NOTHING_CHANGED",
		20, 10*time.Second, func(_ *Guards, r *Relax) { r.StickyStatus = false }, gen, "set-status")
}

func TestC06WitnessVoidKeepsValue(t *testing.T) {
	gen := func(t *rapid.T) C06Scenario {
		return C06Scenario{Modes: []int{pick(t, "mode", []int{0, 1})}, Ops: []Op{
			setOp(true, true, KVSpec{Key: 0, V: pick(t, "val", witnessVals)}),
			setOp(true, true, KVSpec{Key: 0, V: Val{T: 0, NoVoidFlag: rapid.Bool().Draw(t, "nvf")}}),
		}}
	}
	c06Witness(t, fVoid, "witness-void-keeps-value", "Set k0=typed value, then Set k0 with VoidVal=true (or no value field): the key must read back without value",
		20, 10*time.Second, func(g *Guards, _ *Relax) { g.VoidKeepsValue = false }, gen, "contents")
}

func TestC06WitnessDupSwampResponse(t *testing.T) {
	gen := func(t *rapid.T) C06Scenario {
		s := C06Scenario{Modes: []int{pick(t, "mode", []int{0, 1})}}
		if rapid.Bool().Draw(t, "falsefalse") {
			s.Ops = []Op{setOp(true, true, KVSpec{Key: 0, V: witnessVals[0]}), setOp(false, false, KVSpec{Key: 0, V: witnessVals[1]})}
		} else {
			s.Ops = []Op{setOp(false, true, KVSpec{Key: 0, V: witnessVals[0]})}
		}
		return s
	}
	c06Witness(t, fDupResp, "witness-dup-swamp-response", "Set(create=false, overwrite=true) on a swamp that does not exist, or Set(false,false): exactly one response entry per requested swamp",
		10, 10*time.Second, func(_ *Guards, r *Relax) { r.DupSwampResp = false }, gen, "set-response-shape")
}

func TestC06WitnessFailedCondIncrement(t *testing.T) {
	gen := func(t *rapid.T) C06Scenario {
		meta := &IncMetaSpec{CAt: true, CBy: "creator", EAt: &When{Sec: 4000000000}}
		failing := &IncSpec{Kind: int(KInt8), ByI: 1, HasC: true, COp: 1 /* > */, RefI: 10, IfNot: meta, IfEx: &IncMetaSpec{UBy: "updater"}}
		s := C06Scenario{Modes: []int{pick(t, "mode", []int{0, 1})}}
		other := setOp(true, true, KVSpec{Key: 1, V: witnessVals[0]})
		switch rapid.IntRange(0, 3).Draw(t, "variant") {
		case 0: // missing key: the leftover is inherited by a later Set
			s.Ops = []Op{other, {K: "inc", Key: 0, Inc: failing}, setOp(true, true, KVSpec{Key: 0, V: Val{T: int(KString), S: "v"}})}
		case 1: // missing key: an increment of another type fails although the key does not exist
			s.Ops = []Op{other, {K: "inc", Key: 0, Inc: failing}, {K: "inc", Key: 0, Inc: &IncSpec{Kind: int(KUint8), ByU: 1}}}
		case 2: // valueless key becomes a typed 0
			s.Ops = []Op{setOp(true, true, KVSpec{Key: 0, V: Val{T: 0}}), {K: "inc", Key: 0, Inc: failing}}
		default: // typed key: SetIfExist metadata only in memory, gone after the reload
			s.Modes = []int{1}
			s.Ops = []Op{setOp(true, true, KVSpec{Key: 0, V: Val{T: int(KInt8), I: 3}}), {K: "close"}, {K: "inc", Key: 0, Inc: failing}, {K: "close"}}
		}
		return s
	}
	c06Witness(t, fLeak, "witness-failed-condition-increment", "IncrementInt8(+1 if value > 10, with SetIfNotExist/SetIfExist metadata) on a missing key (then Set / IncrementUint8 on it), on a valueless key, or on a typed key followed by a reload",
		20, 10*time.Second, func(g *Guards, _ *Relax) { g.FailedCondLeak = false }, gen, "contents", "inc-error")
}

func TestC06WitnessSliceOntoOtherType(t *testing.T) {
	gen := func(t *rapid.T) C06Scenario {
		s := C06Scenario{Modes: []int{pick(t, "mode", []int{0, 1})}}
		first := setOp(true, true, KVSpec{Key: 0, V: pick(t, "val", witnessVals)})
		if rapid.Bool().Draw(t, "viaset") {
			s.Ops = []Op{first, setOp(true, true, KVSpec{Key: 0, V: Val{T: int(KSlice), L: []uint32{1, 2}}})}
		} else {
			s.Ops = []Op{first, {K: "push", Sl: []SlicePart{{Key: 0, Vals: []uint32{1, 2}}}}, {K: "ssize", Key: 0}}
		}
		return s
	}
	c06Witness(t, fSliceOther, "witness-slice-onto-other-type", "Set k0=typed value, then Set k0=Uint32Slice[1 2] (must read back as the slice), or Uint32SlicePush onto k0 followed by Uint32SliceSize (must not report a slice)",
		20, 10*time.Second, func(g *Guards, _ *Relax) { g.SliceOntoOtherType = false }, gen, "contents", "slice-size")
}
