// Package kv holds the reference key-value model of hydraide's documented
// single-client API semantics (C06) and the op vocabulary / executor shared by
// the C05, C06 and C30 checks.
//
// The model is written from proto/hydraide.proto comments and /repo/docs (with
// the Go SDK doc comments as supporting evidence where the proto is silent),
// NOT from gateway.go. Where the documentation is silent or contradicts itself
// the model accepts a SET of outcomes and counts the situation under a class
// named "unspecified-…".
//
// Usage: after the real call returned, hand request + response + error to the
// matching method. It (1) checks the response against the documented
// semantics for the model's current state, (2) moves the model to the
// successor state (several alternatives may stay open), and the caller then
// (3) calls ObserveAll with a GetAll response, which checks the full contents
// and collapses the open alternatives.
package kv

import (
	"bytes"
	"fmt"
	"math"
	"sort"
	"strings"

	hydrapb "github.com/hydraide/hydraide/sdk/go/hydraidego/v3/hydraidepbgo"
	"google.golang.org/grpc/codes"
	"google.golang.org/grpc/status"
	"google.golang.org/protobuf/types/known/timestamppb"
)

// Kind of a stored value. The numbering is also used by Val.T in scenarios.
type Kind int

const (
	KVoid Kind = iota
	KInt8
	KInt16
	KInt32
	KInt64
	KUint8
	KUint16
	KUint32
	KUint64
	KFloat32
	KFloat64
	KString
	KBool
	KBytes
	KSlice
)

var kindNames = []string{"void", "int8", "int16", "int32", "int64", "uint8", "uint16", "uint32", "uint64", "float32", "float64", "string", "bool", "bytes", "u32slice"}

func (k Kind) String() string {
	if int(k) < len(kindNames) {
		return kindNames[k]
	}
	return fmt.Sprintf("kind%d", int(k))
}

func (k Kind) IsSigned() bool   { return k >= KInt8 && k <= KInt64 }
func (k Kind) IsUnsigned() bool { return k >= KUint8 && k <= KUint64 }
func (k Kind) IsFloat() bool    { return k == KFloat32 || k == KFloat64 }
func (k Kind) IsNumeric() bool  { return k >= KInt8 && k <= KFloat64 }

// Value is one stored value.
type Value struct {
	K Kind
	I int64    // signed kinds
	U uint64   // unsigned kinds
	F float64  // float kinds (float32 values are exactly representable)
	S string   // string
	T bool     // bool
	B []byte   // bytes
	L []uint32 // slice (ordered, unique)
}

// Equal compares two values; floats numerically (−0 == +0, NaN == NaN).
func (v Value) Equal(o Value) bool {
	if v.K != o.K {
		return false
	}
	switch {
	case v.K == KVoid:
		return true
	case v.K.IsSigned():
		return v.I == o.I
	case v.K.IsUnsigned():
		return v.U == o.U
	case v.K.IsFloat():
		return v.F == o.F || (math.IsNaN(v.F) && math.IsNaN(o.F))
	case v.K == KString:
		return v.S == o.S
	case v.K == KBool:
		return v.T == o.T
	case v.K == KBytes:
		return bytes.Equal(v.B, o.B)
	case v.K == KSlice:
		if len(v.L) != len(o.L) {
			return false
		}
		for i := range v.L {
			if v.L[i] != o.L[i] {
				return false
			}
		}
		return true
	}
	return false
}

// IsTypedZero reports a typed value that Go's gob encoding treats as a zero
// field (the C05 defect class): 0, 0.0, "", false, empty bytes, empty slice.
func (v Value) IsTypedZero() bool {
	switch {
	case v.K == KVoid:
		return false
	case v.K.IsSigned():
		return v.I == 0
	case v.K.IsUnsigned():
		return v.U == 0
	case v.K.IsFloat():
		return v.F == 0
	case v.K == KString:
		return v.S == ""
	case v.K == KBool:
		return !v.T
	case v.K == KBytes:
		return len(v.B) == 0
	case v.K == KSlice:
		return len(v.L) == 0
	}
	return false
}

func (v Value) String() string {
	switch {
	case v.K == KVoid:
		return "void"
	case v.K.IsSigned():
		return fmt.Sprintf("%s(%d)", v.K, v.I)
	case v.K.IsUnsigned():
		return fmt.Sprintf("%s(%d)", v.K, v.U)
	case v.K.IsFloat():
		return fmt.Sprintf("%s(%v)", v.K, v.F)
	case v.K == KString:
		return fmt.Sprintf("string(%q)", v.S)
	case v.K == KBool:
		return fmt.Sprintf("bool(%v)", v.T)
	case v.K == KBytes:
		return fmt.Sprintf("bytes(%x)", v.B)
	case v.K == KSlice:
		return fmt.Sprintf("slice%v", v.L)
	}
	return "?"
}

// Record is one stored treasure: value + optional metadata (unix nanos, 0 = unset).
type Record struct {
	V             Value
	CAt, UAt, EAt int64
	CBy, UBy      string
	// A timestamp the server stamps with its own clock: the model only knows
	// the call interval; ObserveAll adopts the observed value if inside.
	cNow, uNow   bool
	nowLo, nowHi int64
	// maybeEmptySlice: this valueless record may really be an emptied / never
	// filled uint32 slice (no response can tell the two apart)
	maybeEmptySlice bool
}

func (r *Record) clone() *Record {
	c := *r
	c.V.B = append([]byte(nil), r.V.B...)
	if r.V.B != nil && c.V.B == nil {
		c.V.B = []byte{}
	}
	c.V.L = append([]uint32(nil), r.V.L...)
	return &c
}

func (r *Record) String() string {
	s := r.V.String()
	if r.CAt != 0 || r.cNow {
		s += fmt.Sprintf(" cAt=%d", r.CAt)
	}
	if r.CBy != "" {
		s += " cBy=" + r.CBy
	}
	if r.UAt != 0 || r.uNow {
		s += fmt.Sprintf(" uAt=%d", r.UAt)
	}
	if r.UBy != "" {
		s += " uBy=" + r.UBy
	}
	if r.EAt != 0 {
		s += fmt.Sprintf(" eAt=%d", r.EAt)
	}
	return s
}

func tsNanos(ts *timestamppb.Timestamp) int64 {
	if ts == nil {
		return 0
	}
	return ts.GetSeconds()*1e9 + int64(ts.GetNanos())
}

// ValueOfTreasure extracts the value a response treasure carries.
func ValueOfTreasure(t *hydrapb.Treasure) (Value, string) {
	var vs []Value
	if t.Int8Val != nil {
		vs = append(vs, Value{K: KInt8, I: int64(*t.Int8Val)})
	}
	if t.Int16Val != nil {
		vs = append(vs, Value{K: KInt16, I: int64(*t.Int16Val)})
	}
	if t.Int32Val != nil {
		vs = append(vs, Value{K: KInt32, I: int64(*t.Int32Val)})
	}
	if t.Int64Val != nil {
		vs = append(vs, Value{K: KInt64, I: *t.Int64Val})
	}
	if t.Uint8Val != nil {
		vs = append(vs, Value{K: KUint8, U: uint64(*t.Uint8Val)})
	}
	if t.Uint16Val != nil {
		vs = append(vs, Value{K: KUint16, U: uint64(*t.Uint16Val)})
	}
	if t.Uint32Val != nil {
		vs = append(vs, Value{K: KUint32, U: uint64(*t.Uint32Val)})
	}
	if t.Uint64Val != nil {
		vs = append(vs, Value{K: KUint64, U: *t.Uint64Val})
	}
	if t.Float32Val != nil {
		vs = append(vs, Value{K: KFloat32, F: float64(*t.Float32Val)})
	}
	if t.Float64Val != nil {
		vs = append(vs, Value{K: KFloat64, F: *t.Float64Val})
	}
	if t.StringVal != nil {
		vs = append(vs, Value{K: KString, S: *t.StringVal})
	}
	if t.BoolVal != nil {
		vs = append(vs, Value{K: KBool, T: *t.BoolVal == hydrapb.Boolean_TRUE})
	}
	if t.BytesVal != nil {
		vs = append(vs, Value{K: KBytes, B: t.BytesVal})
	}
	if len(t.Uint32Slice) > 0 {
		vs = append(vs, Value{K: KSlice, L: t.Uint32Slice})
	}
	switch len(vs) {
	case 0:
		return Value{K: KVoid}, ""
	case 1:
		return vs[0], ""
	}
	return vs[0], fmt.Sprintf("treasure %q carries %d value fields (\"one (or none) will be set\")", t.GetKey(), len(vs))
}

// ValueOfKV is the value a Set request pair asks to store. "Only the non-zero
// / non-nil field will be used"; none => void. An empty Uint32Slice cannot be
// expressed on the wire (repeated field) and is therefore void as well.
func ValueOfKV(kv *hydrapb.KeyValuePair) Value {
	switch {
	case kv.Int8Val != nil:
		return Value{K: KInt8, I: int64(*kv.Int8Val)}
	case kv.Int16Val != nil:
		return Value{K: KInt16, I: int64(*kv.Int16Val)}
	case kv.Int32Val != nil:
		return Value{K: KInt32, I: int64(*kv.Int32Val)}
	case kv.Int64Val != nil:
		return Value{K: KInt64, I: *kv.Int64Val}
	case kv.Uint8Val != nil:
		return Value{K: KUint8, U: uint64(*kv.Uint8Val)}
	case kv.Uint16Val != nil:
		return Value{K: KUint16, U: uint64(*kv.Uint16Val)}
	case kv.Uint32Val != nil:
		return Value{K: KUint32, U: uint64(*kv.Uint32Val)}
	case kv.Uint64Val != nil:
		return Value{K: KUint64, U: *kv.Uint64Val}
	case kv.Float32Val != nil:
		return Value{K: KFloat32, F: float64(*kv.Float32Val)}
	case kv.Float64Val != nil:
		return Value{K: KFloat64, F: *kv.Float64Val}
	case kv.StringVal != nil:
		return Value{K: KString, S: *kv.StringVal}
	case kv.BoolVal != nil:
		return Value{K: KBool, T: *kv.BoolVal == hydrapb.Boolean_TRUE}
	case kv.BytesVal != nil:
		return Value{K: KBytes, B: kv.BytesVal}
	case len(kv.Uint32Slice) > 0:
		return Value{K: KSlice, L: dedup(nil, kv.Uint32Slice)}
	}
	return Value{K: KVoid}
}

func dedup(base, add []uint32) []uint32 {
	out := append([]uint32(nil), base...)
	seen := map[uint32]bool{}
	for _, x := range out {
		seen[x] = true
	}
	for _, x := range add {
		if !seen[x] {
			seen[x] = true
			out = append(out, x)
		}
	}
	return out
}

// Tri is a three-valued existence flag.
type Tri int8

const (
	No Tri = iota
	Yes
	// Maybe: the swamp holds no record but a request that has to summon it
	// (increment with a false condition, slice ops, …) touched it. The proto
	// says "Swamp existence does not guarantee any treasures inside – it's
	// purely structural", so either answer is accepted until a record is
	// stored (Yes) or the swamp is destroyed (No).
	Maybe
)

// Slot is the model state of one key: one definite record, or — between a
// mutating call and the next ObserveAll — several allowed alternatives.
type Slot struct {
	Alts        []*Record
	MaybeAbsent bool
}

type SwampM struct {
	Exist Tri
	Keys  map[string]*Slot
}

// Relax lists the open (recorded) findings whose exact failure shape the
// model tolerates so that a main facet stays green while they are open.
type Relax struct {
	// identical re-Set answers UPDATED instead of NOTHING_CHANGED.
	StickyStatus bool
	// a Set swamp request answered with a swamp-level ErrorCode is followed by
	// a second, bare response entry for the same swamp.
	DupSwampResp bool
}

type Model struct {
	Sw      map[string]*SwampM
	Relax   Relax
	Classes map[string]int
}

func NewModel() *Model { return &Model{Sw: map[string]*SwampM{}, Classes: map[string]int{}} }

// Verdict is the outcome of one model check; Shape "" = consistent.
type Verdict struct{ Shape, Msg string }

func (v Verdict) Bad() bool { return v.Shape != "" }

var ok = Verdict{}

func bad(shape, format string, a ...any) Verdict {
	return Verdict{Shape: shape, Msg: fmt.Sprintf(format, a...)}
}

func (m *Model) class(c string) { m.Classes[c]++ }

func (m *Model) sw(name string) *SwampM {
	s := m.Sw[name]
	if s == nil {
		s = &SwampM{Keys: map[string]*Slot{}}
		m.Sw[name] = s
	}
	return s
}

// Rec returns the definite record of a key (nil when absent).
func (m *Model) Rec(swamp, key string) *Record {
	sl := m.sw(swamp).Keys[key]
	if sl == nil || len(sl.Alts) == 0 {
		return nil
	}
	return sl.Alts[0]
}

func (m *Model) Exists(swamp string) Tri { return m.sw(swamp).Exist }

// Count returns the number of records of a swamp (definite state only).
func (m *Model) Count(swamp string) int { return len(m.sw(swamp).Keys) }

func (s *SwampM) put(key string, recs ...*Record) {
	s.Keys[key] = &Slot{Alts: recs}
	s.Exist = Yes
}

func (s *SwampM) putMaybe(key string, maybeAbsent bool, recs ...*Record) {
	s.Keys[key] = &Slot{Alts: recs, MaybeAbsent: maybeAbsent}
	if !maybeAbsent {
		s.Exist = Yes
	}
}

// del removes a key; an emptied swamp is removed automatically ("automatic
// removal of empty swamps"; SDK: "A valid Swamp will always contain at least 1
// Treasure").
func (s *SwampM) del(key string) {
	delete(s.Keys, key)
	if len(s.Keys) == 0 {
		s.Exist = No
	}
}

// summoned marks a swamp that a request had to open without storing anything.
func (s *SwampM) summoned() {
	if s.Exist == No {
		s.Exist = Maybe
	}
}

func codeOf(err error) codes.Code {
	if err == nil {
		return codes.OK
	}
	if st, isSt := status.FromError(err); isSt {
		return st.Code()
	}
	return codes.Unknown
}

// notExistErr: the error class documented for "swamp does not exist"
// (SDK errorHandler maps FailedPrecondition to ErrCodeSwampNotFound).
func notExistErr(err error) bool {
	c := codeOf(err)
	return c == codes.FailedPrecondition || c == codes.NotFound
}

// ---------------------------------------------------------------------------
// treasure comparison

func metaMatch(exp *Record, t *hydrapb.Treasure) string {
	chkTs := func(name string, want int64, pending bool, got *timestamppb.Timestamp) string {
		g := tsNanos(got)
		if pending {
			if got == nil || g < exp.nowLo || g > exp.nowHi {
				return fmt.Sprintf("%s=%d not inside the call interval [%d,%d]", name, g, exp.nowLo, exp.nowHi)
			}
			return ""
		}
		if want == 0 {
			if got != nil {
				return fmt.Sprintf("%s reported (%d) although never set", name, g)
			}
			return ""
		}
		if got == nil {
			return fmt.Sprintf("%s missing, want %d", name, want)
		}
		if g != want {
			return fmt.Sprintf("%s=%d, want %d", name, g, want)
		}
		return ""
	}
	if d := chkTs("CreatedAt", exp.CAt, exp.cNow, t.CreatedAt); d != "" {
		return d
	}
	if d := chkTs("UpdatedAt", exp.UAt, exp.uNow, t.UpdatedAt); d != "" {
		return d
	}
	if d := chkTs("ExpiredAt", exp.EAt, false, t.ExpiredAt); d != "" {
		return d
	}
	if t.GetCreatedBy() != exp.CBy || (t.CreatedBy != nil) != (exp.CBy != "") {
		return fmt.Sprintf("CreatedBy=%q, want %q", t.GetCreatedBy(), exp.CBy)
	}
	if t.GetUpdatedBy() != exp.UBy || (t.UpdatedBy != nil) != (exp.UBy != "") {
		return fmt.Sprintf("UpdatedBy=%q, want %q", t.GetUpdatedBy(), exp.UBy)
	}
	return ""
}

// matchTreasure: "" when t is a faithful rendering of exp.
func matchTreasure(exp *Record, t *hydrapb.Treasure) string {
	if !t.GetIsExist() {
		return "IsExist=false for an existing key"
	}
	v, multi := ValueOfTreasure(t)
	if multi != "" {
		return multi
	}
	if !v.Equal(exp.V) {
		return fmt.Sprintf("value %s, want %s", v, exp.V)
	}
	return metaMatch(exp, t)
}

func adopt(exp *Record, t *hydrapb.Treasure) {
	if exp.cNow {
		exp.CAt, exp.cNow = tsNanos(t.CreatedAt), false
	}
	if exp.uNow {
		exp.UAt, exp.uNow = tsNanos(t.UpdatedAt), false
	}
}

// matchSlot finds the alternative of a slot that t renders.
func matchSlot(sl *Slot, t *hydrapb.Treasure) (*Record, string) {
	var why []string
	for _, a := range sl.Alts {
		d := matchTreasure(a, t)
		if d == "" {
			return a, ""
		}
		why = append(why, d)
	}
	return nil, strings.Join(why, " | ")
}

// ObserveAll checks a GetAll response (the full contents of one swamp) against
// the model and collapses open alternatives to what was observed.
func (m *Model) ObserveAll(swamp string, resp *hydrapb.GetAllResponse, err error) Verdict {
	s := m.sw(swamp)
	if err != nil {
		if !notExistErr(err) {
			return bad("contents", "GetAll(%s): unexpected error %v", swamp, err)
		}
		// the swamp does not exist
		for k, sl := range s.Keys {
			if !sl.MaybeAbsent {
				return bad("contents", "GetAll(%s) says the swamp does not exist, but the model holds key %q = %s", swamp, k, sl.Alts[0])
			}
		}
		if s.Exist == Yes && len(s.Keys) > 0 {
			// all keys were maybe-absent: fine
		}
		s.Keys = map[string]*Slot{}
		s.Exist = No
		return ok
	}
	got := map[string]*hydrapb.Treasure{}
	for _, t := range resp.GetTreasures() {
		if _, dup := got[t.GetKey()]; dup {
			return bad("contents", "GetAll(%s) lists key %q twice", swamp, t.GetKey())
		}
		got[t.GetKey()] = t
	}
	if s.Exist == No && len(got) > 0 {
		return bad("contents", "GetAll(%s) returns %d treasures, the model says the swamp does not exist", swamp, len(got))
	}
	keys := make([]string, 0, len(s.Keys))
	for k := range s.Keys {
		keys = append(keys, k)
	}
	sort.Strings(keys)
	for _, k := range keys {
		sl := s.Keys[k]
		t, present := got[k]
		if !present {
			if sl.MaybeAbsent {
				delete(s.Keys, k)
				continue
			}
			return bad("contents", "swamp %s: key %q missing from GetAll, model has %s", swamp, k, sl.Alts[0])
		}
		if len(sl.Alts) == 0 {
			return bad("contents", "swamp %s: key %q present (%v) but the model says it is gone", swamp, k, t)
		}
		rec, why := matchSlot(sl, t)
		if rec == nil {
			return bad("contents", "swamp %s: key %q reads %s; model: %s", swamp, k, compact(t), why)
		}
		adopt(rec, t)
		s.Keys[k] = &Slot{Alts: []*Record{rec}}
	}
	gk := make([]string, 0, len(got))
	for k := range got {
		gk = append(gk, k)
	}
	sort.Strings(gk)
	for _, k := range gk {
		if _, known := s.Keys[k]; !known {
			return bad("contents", "swamp %s: GetAll returns key %q (%s) which the model does not hold", swamp, k, compact(got[k]))
		}
	}
	switch {
	case len(s.Keys) > 0:
		s.Exist = Yes
	case s.Exist == Yes:
		// every record vanished as a "maybe absent" alternative and the swamp
		// still answers: it is an empty, summoned swamp.
		s.Exist = Maybe
	}
	return ok
}

func compact(t *hydrapb.Treasure) string {
	v, _ := ValueOfTreasure(t)
	r := Record{V: v, CAt: tsNanos(t.CreatedAt), UAt: tsNanos(t.UpdatedAt), EAt: tsNanos(t.ExpiredAt), CBy: t.GetCreatedBy(), UBy: t.GetUpdatedBy()}
	return r.String()
}

// ---------------------------------------------------------------------------
// Set

type kvMeta struct {
	cAt, uAt, eAt  int64
	cBy, uBy       string
	hasCAt, hasUAt bool
	hasEAt         bool
	hasCBy, hasUBy bool
	anyGiven       bool
}

func metaOfKV(kv *hydrapb.KeyValuePair) kvMeta {
	var g kvMeta
	pos := func(ts *timestamppb.Timestamp) bool { return ts != nil && (ts.GetSeconds() > 0 || ts.GetNanos() > 0) }
	if pos(kv.CreatedAt) {
		g.cAt, g.hasCAt = tsNanos(kv.CreatedAt), true
	}
	if pos(kv.UpdatedAt) {
		g.uAt, g.hasUAt = tsNanos(kv.UpdatedAt), true
	}
	if pos(kv.ExpiredAt) {
		g.eAt, g.hasEAt = tsNanos(kv.ExpiredAt), true
	}
	if kv.GetCreatedBy() != "" {
		g.cBy, g.hasCBy = kv.GetCreatedBy(), true
	}
	if kv.GetUpdatedBy() != "" {
		g.uBy, g.hasUBy = kv.GetUpdatedBy(), true
	}
	g.anyGiven = g.hasCAt || g.hasUAt || g.hasEAt || g.hasCBy || g.hasUBy
	return g
}

func (g kvMeta) apply(r *Record) {
	if g.hasCAt {
		r.CAt = g.cAt
	}
	if g.hasUAt {
		r.UAt = g.uAt
	}
	if g.hasEAt {
		r.EAt = g.eAt
	}
	if g.hasCBy {
		r.CBy = g.cBy
	}
	if g.hasUBy {
		r.UBy = g.uBy
	}
}

// metaEqualsStored: the request's metadata would not change anything.
func (g kvMeta) equalsStored(r *Record) bool {
	return (!g.hasCAt || g.cAt == r.CAt) && (!g.hasUAt || g.uAt == r.UAt) && (!g.hasEAt || g.eAt == r.EAt) &&
		(!g.hasCBy || g.cBy == r.CBy) && (!g.hasUBy || g.uBy == r.UBy)
}

func statusIn(s hydrapb.Status_Code, allowed ...hydrapb.Status_Code) bool {
	for _, a := range allowed {
		if a == s {
			return true
		}
	}
	return false
}

// Set — proto: "CreateIfNotExist: If false, the swamp/key must already exist
// (update only). Overwrite: If false, the existing value will not be
// overwritten"; true+true upsert, false+true update only, true+false insert
// only, false+false no-op. Statuses: NEW / UPDATED / NOTHING_CHANGED
// ("skipped due to Overwrite=false or same value") / NOT_FOUND. "SetResponse.
// Swamps: a list of responses, one per swamp".
func (m *Model) Set(req *hydrapb.SetRequest, resp *hydrapb.SetResponse, err error) Verdict {
	if err != nil {
		return bad("set-error", "Set returned an error for a well-formed request: %v", err)
	}
	if resp == nil {
		return bad("nil-response", "Set returned (nil, nil)")
	}
	rs := resp.GetSwamps()
	ri := 0
	for pi, part := range req.GetSwamps() {
		if ri >= len(rs) {
			return bad("set-response-shape", "Set: %d swamp requests but only %d responses", len(req.GetSwamps()), len(rs))
		}
		r := rs[ri]
		ri++
		if r.GetSwampName() != part.GetSwampName() {
			return bad("set-response-shape", "Set: response %d is for swamp %q, request %d was for %q", ri-1, r.GetSwampName(), pi, part.GetSwampName())
		}
		s := m.sw(part.GetSwampName())
		skipDup := func() {
			if m.Relax.DupSwampResp && ri < len(rs) && rs[ri].GetSwampName() == part.GetSwampName() && rs[ri].ErrorCode == nil && len(rs[ri].GetKeysAndStatuses()) == 0 {
				ri++
			}
		}
		create, over := part.GetCreateIfNotExist(), part.GetOverwrite()
		if !create && !over {
			// documented as "no-op (used for dry run / test)"; the response form is not
			// specified beyond the CanNotBeExecuted code existing.
			m.class("set-flags-false-false")
			if r.ErrorCode != nil {
				if r.GetErrorCode() != hydrapb.SwampResponse_CanNotBeExecuted && !(r.GetErrorCode() == hydrapb.SwampResponse_SwampDoesNotExist && s.Exist != Yes) {
					return bad("set-status", "Set(create=false,overwrite=false) on %s: ErrorCode %v", part.GetSwampName(), r.GetErrorCode())
				}
				if len(r.GetKeysAndStatuses()) != 0 {
					return bad("set-status", "Set(false,false): swamp-level error together with key statuses")
				}
				skipDup()
			} else {
				for _, ks := range r.GetKeysAndStatuses() {
					if !statusIn(ks.GetStatus(), hydrapb.Status_NOTHING_CHANGED, hydrapb.Status_NOT_FOUND) {
						return bad("set-status", "Set(false,false) key %q: status %v for a documented no-op", ks.GetKey(), ks.GetStatus())
					}
				}
			}
			continue
		}
		if !create && s.Exist != Yes {
			// update-only on a swamp that does not exist (or only maybe exists)
			m.class("set-update-only-missing-swamp")
			if r.ErrorCode != nil {
				if r.GetErrorCode() != hydrapb.SwampResponse_SwampDoesNotExist {
					return bad("set-status", "Set(create=false) on missing swamp %s: ErrorCode %v, want SwampDoesNotExist", part.GetSwampName(), r.GetErrorCode())
				}
				if len(r.GetKeysAndStatuses()) != 0 {
					return bad("set-status", "Set(create=false) on missing swamp: swamp-level error together with key statuses")
				}
				if s.Exist == Maybe {
					s.Exist = No // observed: it does not exist
				}
				skipDup()
				continue
			}
			if s.Exist == No {
				return bad("set-status", "Set(create=false) on missing swamp %s: no ErrorCode (statuses %v)", part.GetSwampName(), r.GetKeysAndStatuses())
			}
			// Maybe-existing empty swamp: every key must be NOT_FOUND
			if len(r.GetKeysAndStatuses()) != len(part.GetKeyValues()) {
				return bad("set-response-shape", "Set: %d keys, %d statuses", len(part.GetKeyValues()), len(r.GetKeysAndStatuses()))
			}
			for _, ks := range r.GetKeysAndStatuses() {
				if ks.GetStatus() != hydrapb.Status_NOT_FOUND {
					return bad("set-status", "Set(create=false) key %q in an empty swamp: status %v, want NOT_FOUND", ks.GetKey(), ks.GetStatus())
				}
			}
			continue
		}
		if r.ErrorCode != nil {
			return bad("set-status", "Set on %s (create=%v overwrite=%v, swamp exists=%v): unexpected swamp ErrorCode %v", part.GetSwampName(), create, over, s.Exist, r.GetErrorCode())
		}
		if len(r.GetKeysAndStatuses()) != len(part.GetKeyValues()) {
			return bad("set-response-shape", "Set on %s: %d keys, %d statuses", part.GetSwampName(), len(part.GetKeyValues()), len(r.GetKeysAndStatuses()))
		}
		for i, kv := range part.GetKeyValues() {
			ks := r.GetKeysAndStatuses()[i]
			if ks.GetKey() != kv.GetKey() {
				return bad("set-response-shape", "Set on %s: status %d is for key %q, request has %q", part.GetSwampName(), i, ks.GetKey(), kv.GetKey())
			}
			newV := ValueOfKV(kv)
			g := metaOfKV(kv)
			cur := m.Rec(part.GetSwampName(), kv.GetKey())
			switch {
			case cur == nil && !create:
				if ks.GetStatus() != hydrapb.Status_NOT_FOUND {
					return bad("set-status", "Set(create=false) missing key %q: status %v, want NOT_FOUND", kv.GetKey(), ks.GetStatus())
				}
			case cur == nil:
				if ks.GetStatus() != hydrapb.Status_NEW {
					return bad("set-status", "Set new key %q: status %v, want NEW", kv.GetKey(), ks.GetStatus())
				}
				rec := &Record{V: newV}
				g.apply(rec)
				s.put(kv.GetKey(), rec)
			case !over:
				if ks.GetStatus() != hydrapb.Status_NOTHING_CHANGED {
					return bad("set-status", "Set(overwrite=false) existing key %q: status %v, want NOTHING_CHANGED", kv.GetKey(), ks.GetStatus())
				}
			default:
				sameVal := newV.Equal(cur.V)
				var allowed []hydrapb.Status_Code
				sliceNoop := newV.K == KSlice && cur.V.K == KSlice && !sameVal && Value{K: KSlice, L: dedup(cur.V.L, newV.L)}.Equal(cur.V)
				switch {
				case sliceNoop:
					// under the push reading of a slice Set nothing changes
					allowed = []hydrapb.Status_Code{hydrapb.Status_NOTHING_CHANGED, hydrapb.Status_UPDATED}
				case sameVal && !g.anyGiven && newV.K == KVoid && cur.maybeEmptySlice:
					// clearing an (invisible) empty slice is a change
					allowed = []hydrapb.Status_Code{hydrapb.Status_NOTHING_CHANGED, hydrapb.Status_UPDATED}
					m.class("unspecified-void-over-empty-slice")
				case sameVal && !g.anyGiven:
					// "NOTHING_CHANGED: skipped due to Overwrite=false or same value";
					// SDK: "the Treasure already existed and the new value was identical"
					allowed = []hydrapb.Status_Code{hydrapb.Status_NOTHING_CHANGED}
					if m.Relax.StickyStatus {
						allowed = append(allowed, hydrapb.Status_UPDATED)
					}
					m.class("set-identical-value")
				case sameVal:
					// same value, request carries metadata: not specified
					allowed = []hydrapb.Status_Code{hydrapb.Status_NOTHING_CHANGED, hydrapb.Status_UPDATED}
					m.class("unspecified-reset-same-value-with-metadata")
				default:
					allowed = []hydrapb.Status_Code{hydrapb.Status_UPDATED}
				}
				if !statusIn(ks.GetStatus(), allowed...) {
					return bad("set-status", "Set overwrite key %q (%s -> %s): status %v, allowed %v", kv.GetKey(), cur.V, newV, ks.GetStatus(), allowed)
				}
				// successor alternatives
				var vals []Value
				if newV.K == KSlice && cur.V.K == KSlice {
					// "inserts or updates" vs. the set-like push semantics of the slice type
					vals = []Value{newV, {K: KSlice, L: dedup(cur.V.L, newV.L)}}
					if !newV.Equal(vals[1]) {
						m.class("unspecified-set-slice-over-slice")
					}
				} else {
					vals = []Value{newV}
				}
				var alts []*Record
				for _, v := range vals {
					keep := cur.clone() // metadata the request does not mention is kept …
					keep.V = v
					keep.maybeEmptySlice = cur.maybeEmptySlice && v.K == KVoid
					g.apply(keep)
					alts = append(alts, keep)
					clear := &Record{V: v} // … or dropped with the overwritten record: not specified
					g.apply(clear)
					if clear.String() != keep.String() {
						alts = append(alts, clear)
					}
				}
				if len(alts) > len(vals) {
					m.class("unspecified-overwrite-keeps-or-drops-unmentioned-metadata")
				}
				if sameVal && ks.GetStatus() == hydrapb.Status_NOTHING_CHANGED {
					alts = append(alts, cur.clone())
				}
				s.put(kv.GetKey(), alts...)
			}
		}
	}
	if ri != len(rs) {
		return bad("set-response-shape", "Set: %d swamp requests, %d responses (\"one per swamp\"): %v", len(req.GetSwamps()), len(rs), resp)
	}
	return ok
}

// ---------------------------------------------------------------------------
// reads

// Get — "IsExist tells whether the swamp actually exists. If false, no data
// will be returned"; missing keys are "omitted from the list" (GetSwampResponse)
// or reported with IsExist=false (Treasure.IsExist) — both documented.
func (m *Model) Get(req *hydrapb.GetRequest, resp *hydrapb.GetResponse, err error) Verdict {
	if err != nil {
		// allowed only when some requested swamp does not exist
		for _, p := range req.GetSwamps() {
			if m.sw(p.GetSwampName()).Exist != Yes && notExistErr(err) {
				m.class("get-missing-swamp-error")
				return ok
			}
		}
		return bad("get-error", "Get: unexpected error %v", err)
	}
	if resp == nil {
		return bad("nil-response", "Get returned (nil, nil)")
	}
	if len(resp.GetSwamps()) != len(req.GetSwamps()) {
		return bad("get-response-shape", "Get: %d swamps requested, %d answered", len(req.GetSwamps()), len(resp.GetSwamps()))
	}
	for i, p := range req.GetSwamps() {
		r := resp.GetSwamps()[i]
		s := m.sw(p.GetSwampName())
		if r.GetSwampName() != p.GetSwampName() {
			return bad("get-response-shape", "Get: response %d is for %q, want %q", i, r.GetSwampName(), p.GetSwampName())
		}
		if !r.GetIsExist() {
			if s.Exist == Yes {
				return bad("get-exist", "Get: swamp %s reported IsExist=false but holds %d keys", p.GetSwampName(), len(s.Keys))
			}
			if len(r.GetTreasures()) != 0 {
				return bad("get-exist", "Get: IsExist=false together with treasures")
			}
			continue
		}
		if s.Exist == No {
			return bad("get-exist", "Get: swamp %s reported IsExist=true, the model says it does not exist", p.GetSwampName())
		}
		ti := 0
		ts := r.GetTreasures()
		for _, k := range p.GetKeys() {
			rec := m.Rec(p.GetSwampName(), k)
			if rec == nil {
				if ti < len(ts) && ts[ti].GetKey() == k && !ts[ti].GetIsExist() {
					if v, _ := ValueOfTreasure(ts[ti]); v.K != KVoid || ts[ti].CreatedAt != nil || ts[ti].ExpiredAt != nil {
						return bad("get-value", "Get: missing key %q reported with data: %v", k, ts[ti])
					}
					ti++
				}
				continue
			}
			if ti >= len(ts) || ts[ti].GetKey() != k {
				return bad("get-value", "Get(%s): key %q exists (%s) but is not in the response at position %d: %v", p.GetSwampName(), k, rec, ti, ts)
			}
			if d := matchTreasure(rec, ts[ti]); d != "" {
				return bad("get-value", "Get(%s) key %q: %s", p.GetSwampName(), k, d)
			}
			ti++
		}
		if ti != len(ts) {
			return bad("get-value", "Get(%s): %d surplus treasures in the response: %v", p.GetSwampName(), len(ts)-ti, ts[ti:])
		}
	}
	return ok
}

// matchSet checks an unordered treasure list against the records of the given keys.
func (m *Model) matchSet(what, swamp string, keys []string, ts []*hydrapb.Treasure) Verdict {
	want := map[string]*Record{}
	for _, k := range keys {
		if r := m.Rec(swamp, k); r != nil {
			want[k] = r
		}
	}
	seen := map[string]bool{}
	for _, t := range ts {
		r, w := want[t.GetKey()]
		if !w {
			return bad(what, "%s(%s): returned key %q which does not exist / was not requested", what, swamp, t.GetKey())
		}
		if seen[t.GetKey()] {
			return bad(what, "%s(%s): key %q returned twice", what, swamp, t.GetKey())
		}
		seen[t.GetKey()] = true
		if d := matchTreasure(r, t); d != "" {
			return bad(what, "%s(%s) key %q: %s", what, swamp, t.GetKey(), d)
		}
	}
	for k, r := range want {
		if !seen[k] {
			return bad(what, "%s(%s): existing key %q (%s) missing from the response", what, swamp, k, r)
		}
	}
	return ok
}

// GetByKeys — "Missing keys are silently ignored … If none of the keys exist,
// the response should be empty (not an error)".
func (m *Model) GetByKeys(req *hydrapb.GetByKeysRequest, resp *hydrapb.GetByKeysResponse, err error) Verdict {
	s := m.sw(req.GetSwampName())
	if err != nil {
		if s.Exist != Yes && notExistErr(err) {
			m.class("getbykeys-missing-swamp-error")
			return ok
		}
		return bad("getbykeys", "GetByKeys: unexpected error %v", err)
	}
	if resp == nil {
		return bad("nil-response", "GetByKeys returned (nil, nil)")
	}
	return m.matchSet("getbykeys", req.GetSwampName(), req.GetKeys(), resp.GetTreasures())
}

// Count — "for each swamp: whether the swamp exists, how many elements"; SDK:
// "If the Swamp does not exist → returns ErrCodeSwampNotFound".
func (m *Model) CountRPC(req *hydrapb.CountRequest, resp *hydrapb.CountResponse, err error) Verdict {
	if err != nil {
		for _, p := range req.GetSwamps() {
			if m.sw(p.GetSwampName()).Exist != Yes && notExistErr(err) {
				m.class("count-missing-swamp-error")
				return ok
			}
		}
		return bad("count", "Count: unexpected error %v", err)
	}
	if resp == nil {
		return bad("nil-response", "Count returned (nil, nil)")
	}
	got := map[string]*hydrapb.CountSwamp{}
	for _, c := range resp.GetSwamps() {
		got[c.GetSwampName()] = c
	}
	if len(got) != len(resp.GetSwamps()) || len(resp.GetSwamps()) != len(req.GetSwamps()) {
		return bad("count", "Count: %d swamps requested, response %v", len(req.GetSwamps()), resp)
	}
	for _, p := range req.GetSwamps() {
		c := got[p.GetSwampName()]
		if c == nil {
			return bad("count", "Count: no entry for swamp %s", p.GetSwampName())
		}
		s := m.sw(p.GetSwampName())
		switch {
		case s.Exist == Yes:
			if !c.GetIsExist() || int(c.GetCount()) != len(s.Keys) {
				return bad("count", "Count(%s) = exist %v count %d, model: %d keys", p.GetSwampName(), c.GetIsExist(), c.GetCount(), len(s.Keys))
			}
		case s.Exist == No:
			if c.GetIsExist() || c.GetCount() != 0 {
				return bad("count", "Count(%s) = exist %v count %d for a swamp that does not exist", p.GetSwampName(), c.GetIsExist(), c.GetCount())
			}
		default:
			if c.GetCount() != 0 {
				return bad("count", "Count(%s) = %d for an empty swamp", p.GetSwampName(), c.GetCount())
			}
		}
	}
	return ok
}

func (m *Model) IsSwampExist(name string, resp *hydrapb.IsSwampExistResponse, err error) Verdict {
	if err != nil {
		return bad("isswampexist", "IsSwampExist(%s): error %v", name, err)
	}
	if resp == nil {
		return bad("nil-response", "IsSwampExist returned (nil, nil)")
	}
	s := m.sw(name)
	if (s.Exist == Yes && !resp.GetIsExist()) || (s.Exist == No && resp.GetIsExist()) {
		return bad("isswampexist", "IsSwampExist(%s) = %v, model: exists=%v with %d keys", name, resp.GetIsExist(), s.Exist == Yes, len(s.Keys))
	}
	return ok
}

// IsKeyExist — SDK: (false, ErrCodeSwampNotFound) when the swamp does not exist.
func (m *Model) IsKeyExist(swamp, key string, resp *hydrapb.IsKeyExistResponse, err error) Verdict {
	s := m.sw(swamp)
	if err != nil {
		if s.Exist != Yes && notExistErr(err) {
			return ok
		}
		return bad("iskeyexist", "IsKeyExist(%s,%q): unexpected error %v", swamp, key, err)
	}
	if resp == nil {
		return bad("nil-response", "IsKeyExist returned (nil, nil)")
	}
	if want := m.Rec(swamp, key) != nil; resp.GetIsExist() != want {
		return bad("iskeyexist", "IsKeyExist(%s,%q) = %v, want %v", swamp, key, resp.GetIsExist(), want)
	}
	return ok
}

// AreKeysExist — "All requested keys appear in the response … If the swamp
// does not exist, all keys will return false."
func (m *Model) AreKeysExist(req *hydrapb.AreKeysExistRequest, resp *hydrapb.AreKeysExistResponse, err error) Verdict {
	s := m.sw(req.GetSwampName())
	if err != nil {
		if s.Exist != Yes && notExistErr(err) {
			m.class("arekeysexist-missing-swamp-error")
			return ok
		}
		return bad("arekeysexist", "AreKeysExist: unexpected error %v", err)
	}
	if resp == nil {
		return bad("nil-response", "AreKeysExist returned (nil, nil)")
	}
	want := map[string]bool{}
	for _, k := range req.GetKeys() {
		want[k] = m.Rec(req.GetSwampName(), k) != nil
	}
	if len(resp.GetResults()) != len(want) {
		return bad("arekeysexist", "AreKeysExist(%s): %d distinct keys requested, %d results: %v", req.GetSwampName(), len(want), len(resp.GetResults()), resp.GetResults())
	}
	for k, w := range want {
		g, present := resp.GetResults()[k]
		if !present || g != w {
			return bad("arekeysexist", "AreKeysExist(%s)[%q] = %v (present %v), want %v", req.GetSwampName(), k, g, present, w)
		}
	}
	return ok
}

// ---------------------------------------------------------------------------
// deletes

// Delete — per swamp one response; per key DELETED or a not-found status
// (proto lists "NEW (not found before), DELETED, NOTHING_CHANGED, etc.");
// "A valid Swamp will always contain at least 1 Treasure" => auto-removal.
func (m *Model) Delete(req *hydrapb.DeleteRequest, resp *hydrapb.DeleteResponse, err error) Verdict {
	if err != nil {
		return bad("delete", "Delete: unexpected error %v", err)
	}
	if resp == nil {
		return bad("nil-response", "Delete returned (nil, nil)")
	}
	if len(resp.GetResponses()) != len(req.GetSwamps()) {
		return bad("delete", "Delete: %d swamps requested, %d answered", len(req.GetSwamps()), len(resp.GetResponses()))
	}
	for i, p := range req.GetSwamps() {
		r := resp.GetResponses()[i]
		s := m.sw(p.GetSwampName())
		if r.GetSwampName() != p.GetSwampName() {
			return bad("delete", "Delete: response %d is for %q, want %q", i, r.GetSwampName(), p.GetSwampName())
		}
		if r.ErrorCode != nil {
			if s.Exist == Yes {
				return bad("delete", "Delete(%s): SwampDoesNotExist, but the swamp holds %d keys", p.GetSwampName(), len(s.Keys))
			}
			if len(r.GetKeyStatuses()) != 0 {
				return bad("delete", "Delete: swamp-level error together with key statuses")
			}
			s.Exist = No
			continue
		}
		if s.Exist == No {
			return bad("delete", "Delete(%s): swamp does not exist but no ErrorCode (statuses %v)", p.GetSwampName(), r.GetKeyStatuses())
		}
		if len(r.GetKeyStatuses()) != len(p.GetKeys()) {
			return bad("delete", "Delete(%s): %d keys, %d statuses", p.GetSwampName(), len(p.GetKeys()), len(r.GetKeyStatuses()))
		}
		for j, k := range p.GetKeys() {
			ks := r.GetKeyStatuses()[j]
			if ks.GetKey() != k {
				return bad("delete", "Delete: status %d is for %q, want %q", j, ks.GetKey(), k)
			}
			if m.Rec(p.GetSwampName(), k) != nil {
				if ks.GetStatus() != hydrapb.Status_DELETED {
					return bad("delete", "Delete(%s) existing key %q: status %v, want DELETED", p.GetSwampName(), k, ks.GetStatus())
				}
				s.del(k)
			} else if ks.GetStatus() == hydrapb.Status_DELETED || ks.GetStatus() == hydrapb.Status_UPDATED {
				return bad("delete", "Delete(%s) missing key %q: status %v", p.GetSwampName(), k, ks.GetStatus())
			}
		}
	}
	return ok
}

// ShiftByKeys — returns the existing treasures (unordered), removes them
// permanently; missing keys ignored.
func (m *Model) ShiftByKeys(req *hydrapb.ShiftByKeysRequest, resp *hydrapb.ShiftByKeysResponse, err error) Verdict {
	s := m.sw(req.GetSwampName())
	if err != nil {
		if s.Exist != Yes && notExistErr(err) {
			m.class("shiftbykeys-missing-swamp-error")
			return ok
		}
		return bad("shiftbykeys", "ShiftByKeys: unexpected error %v", err)
	}
	if resp == nil {
		return bad("nil-response", "ShiftByKeys returned (nil, nil)")
	}
	if v := m.matchSet("shiftbykeys", req.GetSwampName(), req.GetKeys(), resp.GetTreasures()); v.Bad() {
		return v
	}
	for _, k := range req.GetKeys() {
		if m.Rec(req.GetSwampName(), k) != nil {
			s.del(k)
		}
	}
	return ok
}

func (m *Model) Destroy(name string, err error) Verdict {
	s := m.sw(name)
	if err != nil {
		if s.Exist != Yes && notExistErr(err) {
			return ok
		}
		return bad("destroy", "Destroy(%s): error %v", name, err)
	}
	s.Keys = map[string]*Slot{}
	s.Exist = No
	return ok
}

// ---------------------------------------------------------------------------
// increments

// IncMeta is IncrementRequestMetadata in resolved form.
type IncMeta struct {
	SetCAt, SetUAt bool
	CBy, UBy       string
	EAt            int64 // unix nanos; 0 = not given
}

func (im *IncMeta) apply(r *Record, lo, hi int64) {
	if im == nil {
		return
	}
	if im.SetCAt {
		r.cNow, r.CAt = true, 0
	}
	if im.SetUAt {
		r.uNow, r.UAt = true, 0
	}
	if im.SetCAt || im.SetUAt {
		r.nowLo, r.nowHi = lo, hi
	}
	if im.CBy != "" {
		r.CBy = im.CBy
	}
	if im.UBy != "" {
		r.UBy = im.UBy
	}
	if im.EAt != 0 {
		r.EAt = im.EAt
	}
}

// IncCall is one Increment* call in type-independent form. By / Cond.Ref use
// the I, U or F field that matches Kind.
type IncCall struct {
	Swamp, Key  string
	Kind        Kind
	By          Value
	Cond        *IncCond
	IfNot, IfEx *IncMeta
	T0, T1      int64 // call interval, unix nanos
}

type IncCond struct {
	Op  hydrapb.Relational_Operator
	Ref Value
}

// IncResult is the response in type-independent form.
type IncResult struct {
	Value       Value
	Incremented bool
	Meta        *hydrapb.IncrementResponseMetadata
	Nil         bool // handler returned (nil, nil)
}

func cmpVals(a, b Value) int {
	switch {
	case a.K.IsSigned():
		switch {
		case a.I < b.I:
			return -1
		case a.I > b.I:
			return 1
		}
		return 0
	case a.K.IsUnsigned():
		switch {
		case a.U < b.U:
			return -1
		case a.U > b.U:
			return 1
		}
		return 0
	default:
		switch {
		case a.F < b.F:
			return -1
		case a.F > b.F:
			return 1
		}
		return 0
	}
}

func condHolds(c *IncCond, cur Value) bool {
	if c == nil {
		return true
	}
	d := cmpVals(cur, c.Ref)
	switch c.Op {
	case hydrapb.Relational_EQUAL:
		return d == 0
	case hydrapb.Relational_NOT_EQUAL:
		return d != 0
	case hydrapb.Relational_GREATER_THAN:
		return d > 0
	case hydrapb.Relational_GREATER_THAN_OR_EQUAL:
		return d >= 0
	case hydrapb.Relational_LESS_THAN:
		return d < 0
	case hydrapb.Relational_LESS_THAN_OR_EQUAL:
		return d <= 0
	}
	return true
}

var sBits = map[Kind]uint{KInt8: 8, KInt16: 16, KInt32: 32, KInt64: 64, KUint8: 8, KUint16: 16, KUint32: 32, KUint64: 64}

// addVals returns cur+by in the arithmetic of the kind and whether the exact
// result left the kind's range (wrapped result returned in that case).
func addVals(cur, by Value) (Value, bool) {
	k := cur.K
	switch {
	case k.IsSigned():
		bits := sBits[k]
		sum := cur.I + by.I // may wrap for int64
		over := false
		if bits == 64 {
			over = (by.I > 0 && sum < cur.I) || (by.I < 0 && sum > cur.I)
		} else {
			lo, hi := -(int64(1) << (bits - 1)), (int64(1)<<(bits-1))-1
			if sum < lo || sum > hi {
				over = true
				// two's complement wrap
				u := uint64(sum) & ((uint64(1) << bits) - 1)
				if u&(uint64(1)<<(bits-1)) != 0 {
					sum = int64(u) - (int64(1) << bits)
				} else {
					sum = int64(u)
				}
			}
		}
		return Value{K: k, I: sum}, over
	case k.IsUnsigned():
		bits := sBits[k]
		sum := cur.U + by.U
		over := false
		if bits == 64 {
			over = sum < cur.U
		} else if sum > (uint64(1)<<bits)-1 {
			over = true
			sum &= (uint64(1) << bits) - 1
		}
		return Value{K: k, U: sum}, over
	case k == KFloat32:
		f := float32(cur.F) + float32(by.F)
		return Value{K: k, F: float64(f)}, math.IsInf(float64(f), 0) || math.IsNaN(float64(f))
	default:
		f := cur.F + by.F
		return Value{K: k, F: f}, math.IsInf(f, 0) || math.IsNaN(f)
	}
}

func incMetaMatch(r *Record, md *hydrapb.IncrementResponseMetadata) string {
	// render the response metadata as a treasure and reuse metaMatch
	t := &hydrapb.Treasure{IsExist: true}
	if md != nil {
		t.CreatedAt, t.UpdatedAt, t.ExpiredAt, t.CreatedBy, t.UpdatedBy = md.CreatedAt, md.UpdatedAt, md.ExpiredAt, md.CreatedBy, md.UpdatedBy
	}
	return metaMatch(r, t)
}

// Increment — proto: "increments (or decrements) the value of the key by the
// specified amount, if a given condition is satisfied. If the condition fails,
// the value is not modified. The response includes the new (or original) value
// and whether the increment was applied." SDK: a missing key is created
// (starting from 0); SetIfNotExist / SetIfExist metadata is chosen by
// pre-increment existence; a different value type makes the call fail.
func (m *Model) Increment(c IncCall, res IncResult, err error) Verdict {
	s := m.sw(c.Swamp)
	cur := m.Rec(c.Swamp, c.Key)
	zero := Value{K: c.Kind}
	if res.Nil && err == nil {
		return bad("nil-response", "Increment%s returned (nil, nil)", c.Kind)
	}
	switch {
	case cur != nil && cur.V.K != c.Kind && cur.V.K != KVoid:
		// type mismatch: "the call fails"
		if err == nil {
			return bad("inc-error", "Increment%s on key %q holding %s: no error (response %s incremented=%v)", c.Kind, c.Key, cur.V, res.Value, res.Incremented)
		}
		m.class("inc-type-mismatch")
		return ok
	case cur != nil && cur.V.K == KVoid:
		// a key without value: unspecified — error or treated like a fresh counter
		m.class("unspecified-increment-on-void-record")
		if err != nil {
			return ok
		}
		fresh := cur.clone()
		fresh.V = zero
		return m.incApply(s, c, res, fresh, []*IncMeta{c.IfNot, c.IfEx}, true, cur)
	case cur == nil:
		if err != nil {
			return bad("inc-error", "Increment%s on missing key %q: error %v", c.Kind, c.Key, err)
		}
		return m.incApply(s, c, res, &Record{V: zero}, []*IncMeta{c.IfNot}, false, nil)
	default:
		if err != nil {
			return bad("inc-error", "Increment%s on key %q = %s: error %v", c.Kind, c.Key, cur.V, err)
		}
		return m.incApply(s, c, res, cur.clone(), []*IncMeta{c.IfEx}, true, cur)
	}
}

// incApply: base = record state before the addition (value = current or 0).
// metas = metadata descriptors that may legitimately be applied (one for the
// normal cases). existed = key was present before the call.
func (m *Model) incApply(s *SwampM, c IncCall, res IncResult, base *Record, metas []*IncMeta, existed bool, before *Record) Verdict {
	holds := condHolds(c.Cond, base.V)
	if !holds {
		m.class("inc-condition-false")
		if res.Incremented {
			return bad("inc-response", "Increment%s key %q: condition %v %s is false for current %s, but IsIncremented=true (value %s)", c.Kind, c.Key, c.Cond.Op, c.Cond.Ref, base.V, res.Value)
		}
		if !res.Value.Equal(base.V) {
			return bad("inc-response", "Increment%s key %q: condition false, response value %s, want the original %s", c.Kind, c.Key, res.Value, base.V)
		}
		if !existed {
			// nothing is created; the swamp may have been summoned
			s.summoned()
			return ok
		}
		// metadata on a failed condition: SDK says the descriptor is applied before the
		// condition is evaluated; proto only says the value is not modified.
		alts := []*Record{before.clone()}
		for _, md := range metas {
			if md != nil {
				w := before.clone()
				md.apply(w, c.T0, c.T1)
				alts = append(alts, w)
				m.class("unspecified-failed-condition-metadata")
			}
		}
		s.put(c.Key, alts...)
		return ok
	}
	sum, over := addVals(base.V, c.By)
	if over {
		m.class("unspecified-increment-overflow")
		// wrapped, rejected, or saturated: not documented. Accept the response as is
		// when it is self-consistent and adopt it.
		if !res.Incremented {
			if !res.Value.Equal(base.V) {
				return bad("inc-response", "Increment%s overflow rejected but value %s != original %s", c.Kind, res.Value, base.V)
			}
			if existed {
				s.put(c.Key, before.clone())
			} else {
				s.summoned()
			}
			return ok
		}
		sum = res.Value
		if sum.K != c.Kind {
			return bad("inc-response", "Increment%s: response kind %s", c.Kind, sum.K)
		}
	} else {
		if !res.Incremented {
			return bad("inc-response", "Increment%s key %q: condition holds for %s but IsIncremented=false", c.Kind, c.Key, base.V)
		}
		if !res.Value.Equal(sum) {
			return bad("inc-response", "Increment%s key %q: %s + %s = %s, response says %s", c.Kind, c.Key, base.V, c.By, sum, res.Value)
		}
	}
	var alts []*Record
	var whys []string
	for _, md := range metas {
		w := base.clone()
		w.V = sum
		md.apply(w, c.T0, c.T1)
		if d := incMetaMatch(w, res.Meta); d != "" {
			whys = append(whys, d)
			continue
		}
		if w.cNow {
			w.CAt, w.cNow = tsNanos(res.Meta.GetCreatedAt()), false
		}
		if w.uNow {
			w.UAt, w.uNow = tsNanos(res.Meta.GetUpdatedAt()), false
		}
		alts = append(alts, w)
	}
	if len(alts) == 0 {
		return bad("inc-response", "Increment%s key %q: response metadata %v does not match: %s", c.Kind, c.Key, res.Meta, strings.Join(whys, " | "))
	}
	s.put(c.Key, alts...)
	return ok
}

// ---------------------------------------------------------------------------
// uint32 slices

// SlicePush — "adds one or more uint32 values … each value is unique within
// the slice. If a number already exists, it will be ignored"; SDK: swamp and
// treasure are auto-created, new values "appended in the order received".
func (m *Model) SlicePush(req *hydrapb.AddToUint32SlicePushRequest, err error) Verdict {
	s := m.sw(req.GetSwampName())
	anyNonSlice := false
	for _, p := range req.GetKeySlicePairs() {
		if cur := m.Rec(req.GetSwampName(), p.GetKey()); cur != nil && cur.V.K != KSlice {
			anyNonSlice = true
		}
	}
	if err != nil {
		if anyNonSlice {
			m.class("unspecified-push-on-non-slice")
			// keys before the offending one may or may not have been processed
			for _, p := range req.GetKeySlicePairs() {
				cur := m.Rec(req.GetSwampName(), p.GetKey())
				switch {
				case cur == nil:
					s.putMaybe(p.GetKey(), true, &Record{V: Value{K: KSlice, L: dedup(nil, p.GetValues())}})
				case cur.V.K == KSlice:
					w := cur.clone()
					w.V.L = dedup(cur.V.L, p.GetValues())
					s.put(p.GetKey(), cur.clone(), w)
				}
			}
			s.summoned()
			return ok
		}
		return bad("slice-push", "Uint32SlicePush(%s): unexpected error %v", req.GetSwampName(), err)
	}
	for _, p := range req.GetKeySlicePairs() {
		cur := m.Rec(req.GetSwampName(), p.GetKey())
		switch {
		case cur == nil:
			vals := dedup(nil, p.GetValues())
			if len(vals) == 0 {
				// pushing nothing onto a missing key: created empty or not at all
				m.class("unspecified-push-nothing-on-missing-key")
				s.putMaybe(p.GetKey(), true, &Record{V: Value{K: KVoid}, maybeEmptySlice: true})
				s.summoned()
			} else {
				s.put(p.GetKey(), &Record{V: Value{K: KSlice, L: vals}})
			}
		case cur.V.K == KSlice:
			w := cur.clone()
			w.V.L = dedup(cur.V.L, p.GetValues())
			s.put(p.GetKey(), w)
		default:
			// SDK: "If the Treasure exists but is not of uint32 slice type, an error is
			// returned"; the proto is silent. No error: unchanged or converted.
			m.class("unspecified-push-on-non-slice")
			conv := cur.clone()
			conv.V = Value{K: KSlice, L: dedup(nil, p.GetValues())}
			s.put(p.GetKey(), cur.clone(), conv)
		}
	}
	return ok
}

// SliceDelete — "removes one or more uint32 values … If a value does not
// exist, it is silently ignored. The key itself (treasure) is preserved"
// (proto) vs. "with auto-GC for empty Treasures and Swamps" (docs/sdk/go):
// both accepted for an emptied slice.
func (m *Model) SliceDelete(req *hydrapb.Uint32SliceDeleteRequest, err error) Verdict {
	s := m.sw(req.GetSwampName())
	if err != nil {
		for _, p := range req.GetKeySlicePairs() {
			if cur := m.Rec(req.GetSwampName(), p.GetKey()); cur != nil && cur.V.K != KSlice {
				m.class("unspecified-slice-delete-on-non-slice")
				return ok
			}
		}
		return bad("slice-delete", "Uint32SliceDelete(%s): unexpected error %v", req.GetSwampName(), err)
	}
	s.summoned()
	for _, p := range req.GetKeySlicePairs() {
		cur := m.Rec(req.GetSwampName(), p.GetKey())
		if cur != nil && cur.V.K == KVoid {
			// a valueless key cannot be told from an empty slice: preserved (proto) or
			// garbage-collected as an empty treasure (docs/sdk)
			m.class("unspecified-slice-delete-on-valueless-key")
			s.putMaybe(p.GetKey(), true, cur.clone())
			continue
		}
		if cur == nil || cur.V.K != KSlice {
			continue
		}
		drop := map[uint32]bool{}
		for _, v := range p.GetValues() {
			drop[v] = true
		}
		w := cur.clone()
		w.V.L = nil
		for _, v := range cur.V.L {
			if !drop[v] {
				w.V.L = append(w.V.L, v)
			}
		}
		if len(w.V.L) == 0 {
			m.class("slice-delete-empties")
			// removed (docs/sdk) or preserved (proto); a preserved empty slice cannot be
			// told from a valueless key in any response, so it is modelled as void.
			w.V = Value{K: KVoid}
			w.maybeEmptySlice = true
			s.putMaybe(p.GetKey(), true, w)
		} else {
			s.put(p.GetKey(), w)
		}
	}
	return ok
}

func (m *Model) SliceSize(swamp, key string, resp *hydrapb.Uint32SliceSizeResponse, err error) Verdict {
	cur := m.Rec(swamp, key)
	m.sw(swamp).summoned()
	if cur == nil || cur.V.K != KSlice {
		if err == nil {
			if cur != nil && cur.V.K == KVoid && resp.GetSize() == 0 {
				return ok // a valueless key counts as an empty slice: unspecified
			}
			return bad("slice-size", "Uint32SliceSize(%s,%q) = %d without error; the key is %v", swamp, key, resp.GetSize(), describe(cur))
		}
		return ok
	}
	if err != nil {
		return bad("slice-size", "Uint32SliceSize(%s,%q): error %v for slice %v", swamp, key, err, cur.V.L)
	}
	if resp == nil || int(resp.GetSize()) != len(cur.V.L) {
		return bad("slice-size", "Uint32SliceSize(%s,%q) = %d, want %d", swamp, key, resp.GetSize(), len(cur.V.L))
	}
	return ok
}

func describe(r *Record) string {
	if r == nil {
		return "absent"
	}
	return r.V.String()
}

func (m *Model) SliceIsValueExist(swamp, key string, val uint32, resp *hydrapb.Uint32SliceIsValueExistResponse, err error) Verdict {
	cur := m.Rec(swamp, key)
	m.sw(swamp).summoned()
	if cur == nil {
		if err == nil {
			return bad("slice-exist", "Uint32SliceIsValueExist(%s,%q,%d) = %v without error for a missing key", swamp, key, val, resp.GetIsExist())
		}
		return ok
	}
	if cur.V.K != KSlice {
		if err == nil && resp.GetIsExist() {
			return bad("slice-exist", "Uint32SliceIsValueExist(%s,%q,%d) = true, the key holds %s", swamp, key, val, cur.V)
		}
		return ok
	}
	if err != nil {
		return bad("slice-exist", "Uint32SliceIsValueExist(%s,%q): error %v", swamp, key, err)
	}
	want := false
	for _, v := range cur.V.L {
		if v == val {
			want = true
		}
	}
	if resp == nil || resp.GetIsExist() != want {
		return bad("slice-exist", "Uint32SliceIsValueExist(%s,%q,%d) = %v, want %v (slice %v)", swamp, key, val, resp.GetIsExist(), want, cur.V.L)
	}
	return ok
}

// RecordOfTreasure renders a response treasure as a model record.
func RecordOfTreasure(t *hydrapb.Treasure) *Record {
	v, _ := ValueOfTreasure(t)
	return &Record{V: v, CAt: tsNanos(t.CreatedAt), UAt: tsNanos(t.UpdatedAt), EAt: tsNanos(t.ExpiredAt), CBy: t.GetCreatedBy(), UBy: t.GetUpdatedBy()}
}

// SyncFrom overwrites the model state of one swamp with observed contents
// (for checks that use the model only to steer guards, not as an oracle).
func (m *Model) SyncFrom(swamp string, resp *hydrapb.GetAllResponse, err error) {
	s := m.sw(swamp)
	s.Keys = map[string]*Slot{}
	if err != nil {
		s.Exist = No
		return
	}
	for _, t := range resp.GetTreasures() {
		s.Keys[t.GetKey()] = &Slot{Alts: []*Record{RecordOfTreasure(t)}}
	}
	if len(s.Keys) > 0 {
		s.Exist = Yes
	} else {
		s.Exist = Maybe
	}
}

// ShiftExpired — "retrieves and deletes expired treasures … If HowMany is 0, all
// expired treasures will be returned; if > 0, only that many"; selection is
// "ExpiredAt < server-now, oldest-first"; "a valid Swamp will always contain at
// least 1 Treasure", i.e. the swamp disappears only when nothing at all is left.
// A record without ExpiredAt "is considered to never expire". t0/t1 = call
// interval (unix nanos): records whose expiry lies inside it may go either way.
func (m *Model) ShiftExpired(swamp string, howMany int, resp *hydrapb.ShiftExpiredTreasuresResponse, err error, t0, t1 int64) Verdict {
	s := m.sw(swamp)
	if err != nil {
		if s.Exist != Yes && notExistErr(err) {
			m.class("shiftexpired-missing-swamp-error")
			return ok
		}
		return bad("shift-expired", "ShiftExpiredTreasures(%s): unexpected error %v", swamp, err)
	}
	if resp == nil {
		return bad("nil-response", "ShiftExpiredTreasures returned (nil, nil)")
	}
	seen := map[string]bool{}
	last := int64(0)
	for i, t := range resp.GetTreasures() {
		r := m.Rec(swamp, t.GetKey())
		if r == nil || seen[t.GetKey()] {
			return bad("shift-expired", "ShiftExpiredTreasures(%s): returned key %q which does not exist / twice", swamp, t.GetKey())
		}
		seen[t.GetKey()] = true
		if r.EAt == 0 || r.EAt >= t1 {
			return bad("shift-expired", "ShiftExpiredTreasures(%s): returned key %q which is not expired (ExpiredAt %d, 0 = never)", swamp, t.GetKey(), r.EAt)
		}
		if d := matchTreasure(r, t); d != "" {
			return bad("shift-expired", "ShiftExpiredTreasures(%s) key %q: %s", swamp, t.GetKey(), d)
		}
		if i > 0 && r.EAt < last {
			return bad("shift-expired", "ShiftExpiredTreasures(%s): not oldest-first: %v", swamp, resp.GetTreasures())
		}
		last = r.EAt
	}
	n := len(resp.GetTreasures())
	if howMany > 0 && n > howMany {
		return bad("shift-expired", "ShiftExpiredTreasures(%s): %d treasures for HowMany=%d", swamp, n, howMany)
	}
	full := howMany > 0 && n == howMany
	for k := range s.Keys {
		r := m.Rec(swamp, k)
		if r == nil || seen[k] || r.EAt == 0 || r.EAt >= t0 {
			continue
		}
		if !full {
			return bad("shift-expired", "ShiftExpiredTreasures(%s, HowMany=%d): expired key %q (ExpiredAt %d) was not returned; got %d treasures", swamp, howMany, k, r.EAt, n)
		}
		if r.EAt < last {
			return bad("shift-expired", "ShiftExpiredTreasures(%s, HowMany=%d): key %q (ExpiredAt %d) is older than a returned record but was left behind", swamp, howMany, k, r.EAt)
		}
	}
	for k := range seen {
		s.del(k)
	}
	return ok
}
