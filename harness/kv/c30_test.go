package kv

import (
	"context"
	"fmt"
	"io"
	"sort"
	"sync"
	"sync/atomic"
	"testing"
	"time"

	hydrapb "github.com/hydraide/hydraide/sdk/go/hydraidego/v3/hydraidepbgo"
	"google.golang.org/protobuf/types/known/timestamppb"
	"pgregory.net/rapid"

	"verifharness/internal/pbt"
	"verifharness/internal/rig"
)

// C30 — Expiry semantics are consistent across every read and claim path.
//
// Reference: per key the expiry the REQUESTS asked for (Set ExpiredAt,
// Increment metadata ExpiredAt, PatchMeta SetExpiredAt / ClearExpiredAt; the
// Unix epoch and "cleared" mean "no expiry"), and ONE predicate:
//   expired(now) <=> expiry != 0 && expiry < now
// evaluated over the call interval [t0, t1]; records inside the interval (or
// within 5 s of the case start: the deliberately unasserted boundary class) are
// never asserted to be on either side.

const fPreEpoch = "pre-epoch-expiry-not-reported-by-reads"

type C30Probe struct {
	From    int    `json:"from,omitempty"`
	Limit   int    `json:"limit,omitempty"`
	Desc    bool   `json:"desc,omitempty"`
	WinFrom *int64 `json:"wf,omitempty"` // seconds relative to the case start
	WinTo   *int64 `json:"wt,omitempty"`
	FiltOff int64  `json:"fo,omitempty"` // filter "ExpiredAt < start + FiltOff s"
}

type C30Claim struct {
	Kind    int            `json:"kind"` // 0 ShiftExpired, 1 PatchExpired, 2 ShiftMatching(EXPIRATION_TIME)
	HowMany int            `json:"n,omitempty"`
	Meta    *PatchMetaSpec `json:"meta,omitempty"` // PatchExpired
	WithOp  bool           `json:"withop,omitempty"`
	Desc    bool           `json:"desc,omitempty"` // ShiftMatching order
	FiltOff *int64         `json:"fo,omitempty"`   // ShiftMatching: Filters ExpiredAt < start+fo
	WinFrom *int64         `json:"wf,omitempty"`   // ShiftMatching FromTime/ToTime
	WinTo   *int64         `json:"wt,omitempty"`
}

type C30Step struct {
	K     string    `json:"k"` // set | inc | patch | delete | close | probe | claim
	Op    *Op       `json:"op,omitempty"`
	Probe *C30Probe `json:"probe,omitempty"`
	Claim *C30Claim `json:"claim,omitempty"`
}

type C30Scenario struct {
	Mode  int       `json:"mode"` // 0 in-memory, 1 persistent 1 s, 2 persistent 0
	Steps []C30Step `json:"steps"`
}

var c30Prefix = []string{"c30m/r/", "c30p/r/", "c30z/r/"}

func c30RigOptions() rig.Options {
	return rig.Options{Patterns: []rig.Pattern{
		{Pattern: "c30m/r/*", InMemory: true, CloseAfterIdleSec: 600},
		{Pattern: "c30p/r/*", CloseAfterIdleSec: 600, WriteIntervalSec: 1},
		{Pattern: "c30z/r/*", CloseAfterIdleSec: 600, WriteIntervalSec: 0},
	}}
}

// ---------------------------------------------------------------------------
// generator

type c30Gen struct {
	t        *rapid.T
	uniq     int32
	preEpoch bool
}

// when draws an expiry. classes: 0 past, 1 future, 2 boundary (unasserted)
func (g *c30Gen) rel() *When {
	g.uniq++
	nano := g.uniq * 1000003 // distinct sub-second part: no accidental ties
	switch rapid.IntRange(0, 9).Draw(g.t, "expclass") {
	case 0, 1, 2, 3:
		return &When{Rel: true, Sec: pick(g.t, "past", []int64{-7200, -600, -60, -6}), Nano: nano}
	case 4, 5, 6, 7:
		return &When{Rel: true, Sec: pick(g.t, "future", []int64{6, 60, 600, 7200}), Nano: nano}
	case 8:
		return &When{Rel: true, Sec: pick(g.t, "past", []int64{-7200, -600, -60, -6}), Nano: 0} // tie-prone
	default:
		return &When{Rel: true, Sec: 0, Nano: pick(g.t, "bnd", []int32{-2000000, 2000000, 40000000})}
	}
}

func (g *c30Gen) patchExp() *When {
	c := rapid.IntRange(0, 9).Draw(g.t, "pexpclass")
	switch {
	case c == 0:
		return &When{Sec: 0, Nano: 0} // the epoch: "no expiry"
	case c == 1 && g.preEpoch:
		return &When{Sec: pick(g.t, "preepoch", []int64{-1, -1000000000}), Nano: pick(g.t, "prenano", []int32{0, 5})}
	}
	return g.rel()
}

func (g *c30Gen) patchMeta(label string, p int) *PatchMetaSpec {
	if !pct(g.t, label, p) {
		return nil
	}
	m := &PatchMetaSpec{UAt: rapid.Bool().Draw(g.t, label+"uat")}
	switch rapid.IntRange(0, 5).Draw(g.t, label+"kind") {
	case 0:
		m.Clear = true
	case 1:
		// leaves the expiry alone
	case 2:
		m.Clear, m.EAt = true, g.patchExp() // clear takes precedence
	default:
		m.EAt = g.patchExp()
	}
	return m
}

func (g *c30Gen) off(label string) int64 {
	return pick(g.t, label, []int64{-10000, -3000, -300, -30, -3, 3, 30, 300, 3000, 10000})
}

func (g *c30Gen) probe() *C30Probe {
	p := &C30Probe{From: pick(g.t, "pfrom", []int{0, 0, 1, 2, 5}), Limit: pick(g.t, "plimit", []int{0, 0, 1, 2, 3}), Desc: rapid.Bool().Draw(g.t, "pdesc"), FiltOff: g.off("pfilt")}
	if rapid.Bool().Draw(g.t, "pwf") {
		v := g.off("pwfv")
		p.WinFrom = &v
	}
	if rapid.Bool().Draw(g.t, "pwt") {
		v := g.off("pwtv")
		p.WinTo = &v
	}
	return p
}

func (g *c30Gen) claim() *C30Claim {
	c := &C30Claim{Kind: pick(g.t, "ckind", []int{0, 0, 1, 1, 2}), HowMany: pick(g.t, "cn", []int{0, 0, 1, 2, 3})}
	switch c.Kind {
	case 1:
		c.WithOp = rapid.Bool().Draw(g.t, "cwithop")
		c.Meta = g.patchMeta("cm", 80)
		if c.Meta == nil && !c.WithOp {
			c.WithOp = true
		}
	case 2:
		c.Desc = rapid.Bool().Draw(g.t, "cdesc")
		switch rapid.IntRange(0, 2).Draw(g.t, "cfilt") {
		case 0:
			v := g.off("cfo")
			c.FiltOff = &v
		case 1:
			a, b := g.off("cwf"), g.off("cwt")
			if a > b {
				a, b = b, a
			}
			c.WinFrom, c.WinTo = &a, &b
		}
	}
	return c
}

var c30Vals = []Val{
	{T: int(KBytes), B: bytesPool[3]}, {T: int(KBytes), B: bytesPool[4]}, {T: int(KBytes), B: bytesPool[3]}, {T: int(KBytes), B: bytesPool[4]},
	{T: int(KBytes), B: []byte{1, 2, 3}}, {T: int(KInt64), I: 5}, {T: int(KString), S: "s"},
}

func genC30With(preEpoch bool) func(t *rapid.T) C30Scenario {
	return func(t *rapid.T) C30Scenario {
		g := &c30Gen{t: t, preEpoch: preEpoch}
		s := C30Scenario{Mode: pick(t, "mode", []int{0, 1, 1, 1, 2})}
		n := rapid.IntRange(2, 22).Draw(t, "nsteps")
		for i := 0; i < n; i++ {
			c := rapid.IntRange(0, 99).Draw(t, "stepclass")
			key := func() int { return rapid.IntRange(0, len(KeyPool)-1).Draw(t, "key") }
			switch {
			case c < 30:
				p := SetPart{Create: true, Overwrite: true}
				for _, k := range GenKeys(t, "setkeys", 1, 4) {
					v := pick(t, "val", c30Vals)
					if rapid.IntRange(0, 9).Draw(t, "hasexp") < 7 {
						v.M = &Meta{EAt: g.rel()}
					}
					p.KVs = append(p.KVs, KVSpec{Key: k, V: v})
				}
				s.Steps = append(s.Steps, C30Step{K: "set", Op: &Op{K: "set", Sets: []SetPart{p}}})
			case c < 40:
				sp := &IncSpec{Kind: int(KInt64), ByI: pick(t, "by", []int64{1, -1, 5})}
				if pct(t, "hascond", 40) {
					sp.HasC, sp.COp, sp.RefI = true, rapid.IntRange(0, 5).Draw(t, "cop"), pick(t, "ref", []int64{0, 1, 5, 6})
				}
				if pct(t, "ifnot", 60) {
					sp.IfNot = &IncMetaSpec{EAt: g.rel()}
				}
				if pct(t, "ifex", 60) {
					sp.IfEx = &IncMetaSpec{EAt: g.rel(), UAt: true}
				}
				s.Steps = append(s.Steps, C30Step{K: "inc", Op: &Op{K: "inc", Key: key(), Inc: sp}})
			case c < 62:
				p := &PatchSpec{Create: pct(t, "pcreate", 60), Seed: rapid.IntRange(0, 2).Draw(t, "pseed"), Meta: g.patchMeta("pm", 70)}
				for _, k := range GenKeys(t, "pkeys", 1, 3) {
					it := PatchItem{Key: k, Meta: g.patchMeta("pim", 40)}
					if rapid.Bool().Draw(t, "pop") {
						it.Ops = []PatchOpSpec{{Kind: 0, Field: rapid.IntRange(0, 3).Draw(t, "pf"), N: rapid.IntRange(0, 100).Draw(t, "pn")}}
					}
					p.Items = append(p.Items, it)
				}
				s.Steps = append(s.Steps, C30Step{K: "patch", Op: &Op{K: "patch", Patch: p}})
			case c < 67:
				s.Steps = append(s.Steps, C30Step{K: "delete", Op: &Op{K: "delete", Parts: []KeysPart{{Keys: GenKeys(t, "delkeys", 1, 2)}}}})
			case c < 76:
				s.Steps = append(s.Steps, C30Step{K: "close"})
			case c < 90:
				s.Steps = append(s.Steps, C30Step{K: "probe", Probe: g.probe()})
			default:
				s.Steps = append(s.Steps, C30Step{K: "claim", Claim: g.claim()})
			}
		}
		s.Steps = append(s.Steps, C30Step{K: "probe", Probe: g.probe()})
		if rapid.Bool().Draw(t, "finalclaim") {
			s.Steps = append(s.Steps, C30Step{K: "claim", Claim: g.claim()}, C30Step{K: "probe", Probe: g.probe()})
		}
		return s
	}
}

// ---------------------------------------------------------------------------
// reference state

type c30Rec struct {
	exp     []int64 // alternatives (resolved by the read that follows a mutation)
	msgpack bool
	kind    Kind
	i64     int64
}

func (r *c30Rec) e() int64 { return r.exp[0] }

type c30Run struct {
	env    *Env
	d      *Driver
	sn     string
	recs   map[string]*c30Rec
	client hydrapb.HydraideServiceClient
	start  int64
	leak   bool     // open C06 finding: skip increments with a mutating false condition
	gone   []string // keys a shift claim returned: must be absent in the next read
	strict bool     // after a claim: the remaining contents must be exactly the reference's
	// evidence
	indexBuilt, movedAfterBuild bool
	pathsAfterMove              map[string]bool
	classes                     map[string]bool
}

func (c *c30Run) boundary(e int64) bool {
	d := e - c.start
	return d > -5e9 && d < 5e9
}

// expiredness of expiry e for a call that ran in [t0, t1]: +1 expired, -1 not, 0 unasserted
func (c *c30Run) expired(e, t0, t1 int64) int {
	switch {
	case e == 0:
		return -1
	case c.boundary(e):
		return 0
	case e < t0:
		return 1
	case e >= t1:
		return -1
	}
	return 0
}

func isMsgpackMap(b []byte) bool {
	return len(b) >= 3 && b[0] == 0xC7 && b[1] == 0x00 && (b[2]&0xf0) == 0x80
}

func (c *c30Run) fail(shape, format string, a ...any) *pbt.Outcome {
	o := pbt.Failf(shape, format, a...)
	return &o
}

func (c *c30Run) incident(where string, inc *Incident) *pbt.Outcome {
	o := pbt.Failf(inc.Kind, "%s: %s", where, inc.Msg)
	return &o
}

func (c *c30Run) touch(path string) {
	if c.movedAfterBuild {
		c.pathsAfterMove[path] = true
	}
}

// expOfMeta: the expiry a PatchMeta asks for; keep=true when it leaves it alone.
func (c *c30Run) expOfMeta(m *PatchMetaSpec) (exp int64, keep bool) {
	switch {
	case m == nil:
		return 0, true
	case m.Clear:
		return 0, false
	case m.EAt != nil:
		return m.EAt.Nanos(c.env.Start), false // the epoch gives 0 = no expiry
	}
	return 0, true
}

// syncAfterMutation reads the swamp back (GetAll = the "Get reports ExpiredAt"
// path), adopts existence, resolves open alternatives and asserts the reported
// expiry of every record against the reference.
func (c *c30Run) syncAfterMutation(where string) *pbt.Outcome {
	resp, err, inc := c.env.GetAll(c.sn)
	if inc != nil {
		return c.incident(where, inc)
	}
	c.d.M.SyncFrom(c.sn, resp, err)
	c.d.trackDisk()
	if err != nil && !notExistErr(err) {
		return c.fail("read-error", "%s: GetAll: %v", where, err)
	}
	got := map[string]*hydrapb.Treasure{}
	for _, t := range resp.GetTreasures() {
		got[t.GetKey()] = t
	}
	for _, k := range c.gone {
		if t, present := got[k]; present {
			return c.fail("claim", "%s: key %q was returned by a shift claim (\"permanently removed\") but is still stored: %v", where, k, t)
		}
	}
	c.gone = nil
	if c.strict {
		// a claim removes exactly what it returned (PatchExpired: nothing): every other
		// record — expired or not, with or without expiry — must still be there, and the
		// swamp disappears only when nothing at all is left
		c.strict = false
		var missing, surplus []string
		for k, r := range c.recs {
			if _, present := got[k]; !present {
				missing = append(missing, fmt.Sprintf("%s(expiry %d rel., 0=none: %v)", k, r.e()-c.start, r.e() == 0))
			}
		}
		for k := range got {
			if c.recs[k] == nil {
				surplus = append(surplus, k)
			}
		}
		sort.Strings(missing)
		sort.Strings(surplus)
		if len(missing)+len(surplus) > 0 {
			return c.fail("claim-contents", "%s: contents after the claim differ from the reference: missing %v, surplus %v (GetAll error: %v)", where, missing, surplus, err)
		}
		er, eerr, _, inc := Call(c.env, "IsSwampExist", &hydrapb.IsSwampExistRequest{IslandID: rig.Island(c.sn), SwampName: c.sn}, c.env.R.G.IsSwampExist)
		if inc != nil {
			return c.incident(where, inc)
		}
		if eerr != nil || (len(c.recs) > 0 && !er.GetIsExist()) {
			return c.fail("claim-contents", "%s: IsSwampExist = %v (%v) although %d records must remain", where, er.GetIsExist(), eerr, len(c.recs))
		}
	}
	for k := range c.recs {
		if _, present := got[k]; !present {
			delete(c.recs, k)
			c.classes["existence-adopted-from-read"] = true
		}
	}
	for k, t := range got {
		rep := tsNanos(t.ExpiredAt)
		r := c.recs[k]
		if r == nil {
			v, _ := ValueOfTreasure(t)
			c.recs[k] = &c30Rec{exp: []int64{rep}, kind: v.K, msgpack: v.K == KBytes && isMsgpackMap(v.B), i64: v.I}
			c.classes["existence-adopted-from-read"] = true
			continue
		}
		v, _ := ValueOfTreasure(t)
		r.kind, r.msgpack, r.i64 = v.K, v.K == KBytes && isMsgpackMap(v.B), v.I
		match := false
		for _, e := range r.exp {
			if e == rep && (t.ExpiredAt != nil) == (e != 0) {
				r.exp, match = []int64{e}, true
				break
			}
		}
		if !match {
			return c.fail("get-expiry", "%s: key %q reads ExpiredAt=%v (%d); the requests set its expiry to %v (case start %d)", where, k, t.ExpiredAt, rep, r.exp, c.start)
		}
	}
	c.touch("get")
	return nil
}

// ---------------------------------------------------------------------------
// mutations

func (c *c30Run) doSet(op *Op) *pbt.Outcome {
	req := c.env.SetReq(op)
	resp, err, isNil, inc := Call(c.env, "Set", req, c.env.R.G.Set)
	if inc != nil {
		return c.incident("Set", inc)
	}
	if err != nil || isNil || len(resp.GetSwamps()) == 0 {
		return c.fail("set-error", "Set: %v %v", resp, err)
	}
	for i, kv := range req.GetSwamps()[0].GetKeyValues() {
		st := resp.GetSwamps()[0].GetKeysAndStatuses()[i].GetStatus()
		r := c.recs[kv.GetKey()]
		given := kv.ExpiredAt != nil
		e := tsNanos(kv.ExpiredAt)
		v := ValueOfKV(kv)
		switch st {
		case hydrapb.Status_NEW:
			c.recs[kv.GetKey()] = &c30Rec{exp: []int64{e}}
		case hydrapb.Status_UPDATED, hydrapb.Status_NOTHING_CHANGED:
			if r == nil {
				c.recs[kv.GetKey()] = &c30Rec{exp: []int64{e}}
				break
			}
			if given {
				if e != r.e() {
					c.moved()
				}
				r.exp = []int64{e}
			} else if r.e() != 0 {
				// an overwrite that does not mention ExpiredAt: kept or dropped (not specified)
				r.exp = []int64{r.e(), 0}
				c.classes["unspecified-overwrite-keeps-or-drops-expiry"] = true
			}
		}
		_ = v
	}
	return nil
}

func (c *c30Run) moved() {}

// movedByPatch: an expiry was moved or cleared through a patch; counts for the
// non-triviality rule when the expiration index had been built before.
func (c *c30Run) movedByPatch() {
	c.classes["expiry-moved-or-cleared-through-patch"] = true
	if c.indexBuilt {
		c.movedAfterBuild = true
		c.pathsAfterMove = map[string]bool{}
	}
}

func (c *c30Run) doInc(op *Op) *pbt.Outcome {
	call := c.env.IncCallOf(op)
	r := c.recs[call.Key]
	cur := Value{K: KInt64}
	if r != nil && r.kind == KInt64 {
		cur.I = r.i64
	}
	holds := condHolds(call.Cond, cur)
	typed := r != nil && r.kind == KInt64
	if c.leak && !holds && (r == nil || r.kind == KVoid || (typed && op.Inc.IfEx != nil)) {
		c.classes["skipped-open-finding:inc-false-condition-that-mutates"] = true
		return nil
	}
	res, err, inc := c.env.DoIncrement(op, call)
	if inc != nil {
		return c.incident("IncrementInt64", inc)
	}
	if err != nil {
		return nil // other type: nothing changes
	}
	var md *IncMeta
	switch {
	case r == nil:
		if !res.Incremented {
			return nil
		}
		md = call.IfNot
		c.recs[call.Key] = &c30Rec{exp: []int64{0}}
		r = c.recs[call.Key]
	case typed:
		md = call.IfEx
		if !res.Incremented && md != nil && md.EAt != 0 {
			// metadata on a failed condition: applied or not (see C06)
			r.exp = []int64{r.e(), md.EAt}
			return nil
		}
	default:
		// valueless key: either descriptor may apply
		alts := []int64{r.e()}
		for _, m := range []*IncMeta{call.IfNot, call.IfEx} {
			if m != nil && m.EAt != 0 {
				alts = append(alts, m.EAt)
			}
		}
		r.exp = alts
		return nil
	}
	if md != nil && md.EAt != 0 {
		if md.EAt != r.e() {
			c.moved()
		}
		r.exp = []int64{md.EAt}
	}
	// response metadata is one more path that reports the expiry
	if rep := tsNanos(res.Meta.GetExpiredAt()); rep != r.e() {
		return c.fail("get-expiry", "IncrementInt64(%q): response metadata ExpiredAt=%d, reference expiry %d", call.Key, rep, r.e())
	}
	return nil
}

func (c *c30Run) doPatch(op *Op) *pbt.Outcome {
	req := c.env.PatchReq(op)
	resp, err, isNil, inc := Call(c.env, "PatchTreasures", req, c.env.R.G.PatchTreasures)
	if inc != nil {
		return c.incident("PatchTreasures", inc)
	}
	if err != nil || isNil || len(resp.GetResults()) != len(op.Patch.Items) {
		return c.fail("patch-error", "PatchTreasures: %v %v", resp, err)
	}
	for i, it := range op.Patch.Items {
		key := c.env.KN(it.Key)
		meta := it.Meta
		if meta == nil {
			meta = op.Patch.Meta
		}
		exp, keep := c.expOfMeta(meta)
		r := c.recs[key]
		switch resp.GetResults()[i].GetStatus() {
		case hydrapb.PatchResult_CREATED:
			if keep {
				exp = 0
			}
			c.recs[key] = &c30Rec{exp: []int64{exp}, msgpack: true, kind: KBytes}
		case hydrapb.PatchResult_PATCHED:
			if r == nil {
				c.recs[key] = &c30Rec{exp: []int64{exp}, msgpack: true, kind: KBytes}
				break
			}
			if !keep {
				if exp != r.e() {
					c.movedByPatch()
				}
				r.exp = []int64{exp}
			}
		}
	}
	return nil
}

// ---------------------------------------------------------------------------
// probes

type keyExp struct {
	key string
	exp int64
}

func (c *c30Run) indexed() []keyExp {
	var out []keyExp
	for k, r := range c.recs {
		if r.e() != 0 {
			out = append(out, keyExp{k, r.e()})
		}
	}
	sort.Slice(out, func(i, j int) bool {
		if out[i].exp != out[j].exp {
			return out[i].exp < out[j].exp
		}
		return out[i].key < out[j].key
	})
	return out
}

// checkOrdered: got must be want up to permutations inside groups of equal expiry.
func (c *c30Run) checkOrdered(what string, want []keyExp, got []*hydrapb.Treasure) *pbt.Outcome {
	desc := func() string {
		var g []string
		for _, t := range got {
			g = append(g, fmt.Sprintf("%s@%d", t.GetKey(), tsNanos(t.ExpiredAt)-c.start))
		}
		var w []string
		for _, x := range want {
			w = append(w, fmt.Sprintf("%s@%d", x.key, x.exp-c.start))
		}
		return fmt.Sprintf("got %v, want %v (expiries relative to the case start, ns)", g, w)
	}
	if len(got) != len(want) {
		return c.fail("expiry-index", "%s: %d records returned, %d expected: %s", what, len(got), len(want), desc())
	}
	seen := map[string]bool{}
	for i, t := range got {
		r := c.recs[t.GetKey()]
		if r == nil || seen[t.GetKey()] {
			return c.fail("expiry-index", "%s: position %d holds key %q (unknown or duplicate): %s", what, i, t.GetKey(), desc())
		}
		seen[t.GetKey()] = true
		if r.e() != want[i].exp {
			return c.fail("expiry-index", "%s: position %d holds key %q with expiry %d, expected a record with expiry %d there: %s", what, i, t.GetKey(), r.e()-c.start, want[i].exp-c.start, desc())
		}
	}
	return nil
}

func reverse(xs []keyExp) []keyExp {
	out := make([]keyExp, len(xs))
	for i, x := range xs {
		out[len(xs)-1-i] = x
	}
	return out
}

func window(xs []keyExp, from, limit int) []keyExp {
	if from >= len(xs) {
		return nil
	}
	xs = xs[from:]
	if limit > 0 && limit < len(xs) {
		xs = xs[:limit]
	}
	return xs
}

func (c *c30Run) relTS(off *int64) (*timestamppb.Timestamp, int64) {
	if off == nil {
		return nil, 0
	}
	// + 333 333 333 ns: never equal to a generated expiry
	t := c.env.Start.Add(time.Duration(*off)*time.Second + 333333333)
	return timestamppb.New(t), t.UnixNano()
}

func (c *c30Run) getByIndex(req *hydrapb.GetByIndexRequest) ([]*hydrapb.Treasure, *pbt.Outcome) {
	resp, err, _, inc := Call(c.env, "GetByIndex", req, c.env.R.G.GetByIndex)
	if inc != nil {
		return nil, c.incident("GetByIndex", inc)
	}
	if err != nil {
		if notExistErr(err) && len(c.recs) == 0 {
			return nil, nil
		}
		return nil, c.fail("read-error", "GetByIndex(EXPIRATION_TIME): %v (model holds %d records)", err, len(c.recs))
	}
	c.indexBuilt = true
	return resp.GetTreasures(), nil
}

func (c *c30Run) streamKeys(filter *hydrapb.TreasureFilter) (map[string]bool, int64, int64, *pbt.Outcome) {
	ctx, cancel := context.WithTimeout(context.Background(), c.env.wd())
	defer cancel()
	t0 := time.Now().UnixNano()
	st, err := c.client.GetByIndexStream(ctx, &hydrapb.GetByIndexStreamRequest{IslandID: rig.Island(c.sn), SwampName: c.sn, IndexType: hydrapb.IndexType_KEY,
		Filters: &hydrapb.FilterGroup{Filters: []*hydrapb.TreasureFilter{filter}}})
	out := map[string]bool{}
	for err == nil {
		var m *hydrapb.GetByIndexStreamResponse
		m, err = st.Recv()
		if err == nil {
			out[m.GetTreasure().GetKey()] = true
		}
	}
	t1 := time.Now().UnixNano()
	if err != io.EOF {
		if ctx.Err() != nil {
			return nil, 0, 0, c.incident("GetByIndexStream", &Incident{Kind: "hang", Msg: "stream did not finish: " + err.Error()})
		}
		if notExistErr(err) && len(c.recs) == 0 {
			return out, t0, t1, nil
		}
		return nil, 0, 0, c.fail("read-error", "GetByIndexStream with an ExpiredAt filter: %v", err)
	}
	return out, t0, t1, nil
}

func (c *c30Run) probe(p *C30Probe) *pbt.Outcome {
	isl := rig.Island(c.sn)
	all := c.indexed()
	// 1. the whole index, both directions
	for _, desc := range []bool{false, true} {
		want, ord := all, hydrapb.OrderType_ASC
		if desc {
			want, ord = reverse(all), hydrapb.OrderType_DESC
		}
		got, o := c.getByIndex(&hydrapb.GetByIndexRequest{IslandID: isl, SwampName: c.sn, IndexType: hydrapb.IndexType_EXPIRATION_TIME, OrderType: ord})
		if o != nil {
			return o
		}
		if o := c.checkOrdered(fmt.Sprintf("GetByIndex(EXPIRATION_TIME, %v, all)", ord), want, got); o != nil {
			return o
		}
	}
	c.touch("index")
	// 2. a From/Limit page inside an optional FromTime/ToTime window
	ft, fn := c.relTS(p.WinFrom)
	tt, tn := c.relTS(p.WinTo)
	var win []keyExp
	for _, x := range all {
		if (p.WinFrom == nil || x.exp >= fn) && (p.WinTo == nil || x.exp < tn) {
			win = append(win, x)
		}
	}
	ord := hydrapb.OrderType_ASC
	if p.Desc {
		win, ord = reverse(win), hydrapb.OrderType_DESC
	}
	got, o := c.getByIndex(&hydrapb.GetByIndexRequest{IslandID: isl, SwampName: c.sn, IndexType: hydrapb.IndexType_EXPIRATION_TIME, OrderType: ord,
		From: int32(p.From), Limit: int32(p.Limit), FromTime: ft, ToTime: tt})
	if o != nil {
		return o
	}
	if o := c.checkOrdered(fmt.Sprintf("GetByIndex(EXPIRATION_TIME, %v, From=%d, Limit=%d, FromTime=%v, ToTime=%v)", ord, p.From, p.Limit, p.WinFrom, p.WinTo), window(win, p.From, p.Limit), got); o != nil {
		return o
	}
	// 3. filters on ExpiredAt (streamed read over the KEY index)
	if c.client != nil {
		fts, fnn := c.relTS(&p.FiltOff)
		keys, _, _, o := c.streamKeys(&hydrapb.TreasureFilter{Operator: hydrapb.Relational_LESS_THAN, CompareValue: &hydrapb.TreasureFilter_ExpiredAtVal{ExpiredAtVal: fts}})
		if o != nil {
			return o
		}
		for k, r := range c.recs {
			if want := r.e() != 0 && r.e() < fnn; want != keys[k] {
				return c.fail("expiry-filter", "filter ExpiredAt < start%+ds: key %q (expiry %d rel.) matched=%v, want %v", p.FiltOff, k, r.e()-c.start, keys[k], want)
			}
		}
		// "find expired treasures": ExpiredAt < now
		now := time.Now()
		keys, _, _, o = c.streamKeys(&hydrapb.TreasureFilter{Operator: hydrapb.Relational_LESS_THAN, CompareValue: &hydrapb.TreasureFilter_ExpiredAtVal{ExpiredAtVal: timestamppb.New(now)}})
		if o != nil {
			return o
		}
		for k, r := range c.recs {
			switch c.expired(r.e(), now.UnixNano(), now.UnixNano()+1) {
			case 1:
				if !keys[k] {
					return c.fail("expiry-filter", "filter ExpiredAt < now: expired key %q (expiry %d rel.) did not match", k, r.e()-c.start)
				}
			case -1:
				if keys[k] {
					return c.fail("expiry-filter", "filter ExpiredAt < now: key %q (expiry %d rel., 0 = none) matched although it is not expired", k, r.e()-c.start)
				}
			}
		}
		keys, _, _, o = c.streamKeys(&hydrapb.TreasureFilter{Operator: hydrapb.Relational_IS_NOT_EMPTY, CompareValue: &hydrapb.TreasureFilter_ExpiredAtVal{ExpiredAtVal: &timestamppb.Timestamp{}}})
		if o != nil {
			return o
		}
		for k, r := range c.recs {
			if want := r.e() != 0; want != keys[k] {
				return c.fail("expiry-filter", "filter ExpiredAt IS_NOT_EMPTY: key %q (expiry %d) matched=%v, want %v", k, r.e(), keys[k], want)
			}
		}
		c.touch("filter")
	}
	// 4. Get reports an ExpiredAt iff the record has one
	gr, err, _, inc := Call(c.env, "Get", &hydrapb.GetRequest{Swamps: []*hydrapb.GetSwamp{{IslandID: isl, SwampName: c.sn, Keys: c.env.Keys}}}, c.env.R.G.Get)
	if inc != nil {
		return c.incident("Get", inc)
	}
	if err != nil && !(notExistErr(err) && len(c.recs) == 0) {
		return c.fail("read-error", "Get: %v", err)
	}
	for _, sw := range gr.GetSwamps() {
		for _, t := range sw.GetTreasures() {
			r := c.recs[t.GetKey()]
			if !t.GetIsExist() || r == nil {
				continue
			}
			if rep := tsNanos(t.ExpiredAt); rep != r.e() || (t.ExpiredAt != nil) != (r.e() != 0) {
				return c.fail("get-expiry", "Get(%q) reports ExpiredAt=%v, reference expiry %d", t.GetKey(), t.ExpiredAt, r.e())
			}
		}
	}
	c.touch("get")
	return nil
}

// ---------------------------------------------------------------------------
// claims

// checkClaimed: the keys a claim path picked, in order, against the reference:
// cand = records the selection may pick (already restricted by filters/windows),
// each with its expiredness for this call (+1 must, 0 may, -1 must not).
func (c *c30Run) checkClaimed(what string, picked []string, howMany int, t0, t1 int64, onlyExpired bool, cand []keyExp, desc bool) *pbt.Outcome {
	state := map[string]int{}
	expOf := map[string]int64{}
	for _, x := range cand {
		st := 1
		if onlyExpired {
			st = c.expired(x.exp, t0, t1)
		}
		state[x.key], expOf[x.key] = st, x.exp
	}
	seen := map[string]bool{}
	last := int64(0)
	for i, k := range picked {
		st, isCand := state[k]
		if !isCand || st == -1 || seen[k] {
			why := "is not a candidate (no expiry / outside the filter)"
			if isCand && st == -1 {
				why = fmt.Sprintf("is not expired (expiry %d ns after the case start)", expOf[k]-c.start)
			}
			if seen[k] {
				why = "was returned twice"
			}
			return c.fail("claim", "%s: returned key %q which %s; picked %v", what, k, why, picked)
		}
		seen[k] = true
		if i > 0 && ((!desc && expOf[k] < last) || (desc && expOf[k] > last)) {
			return c.fail("claim", "%s: not ordered by expiry: %v", what, picked)
		}
		last = expOf[k]
	}
	if howMany > 0 && len(picked) > howMany {
		return c.fail("claim", "%s: %d records for HowMany=%d", what, len(picked), howMany)
	}
	full := howMany > 0 && len(picked) == howMany
	for k, st := range state {
		if st != 1 || seen[k] {
			continue
		}
		// a definitely eligible record was left behind: only allowed when the
		// result is full and the record sorts after everything that was picked
		if !full {
			return c.fail("claim", "%s: eligible key %q (expiry %d ns rel.) was not picked; picked %v (HowMany=%d)", what, k, expOf[k]-c.start, picked, howMany)
		}
		if (!desc && expOf[k] < last) || (desc && expOf[k] > last) {
			return c.fail("claim", "%s: key %q (expiry %d rel.) is older than a picked record but was left behind; picked %v", what, k, expOf[k]-c.start, picked)
		}
	}
	return nil
}

func (c *c30Run) claim(cl *C30Claim) *pbt.Outcome {
	isl := rig.Island(c.sn)
	switch cl.Kind {
	case 0:
		t0 := time.Now().UnixNano()
		resp, err, _, inc := Call(c.env, "ShiftExpiredTreasures", &hydrapb.ShiftExpiredTreasuresRequest{IslandID: isl, SwampName: c.sn, HowMany: int32(cl.HowMany)}, c.env.R.G.ShiftExpiredTreasures)
		t1 := time.Now().UnixNano()
		if inc != nil {
			return c.incident("ShiftExpiredTreasures", inc)
		}
		if err != nil {
			if notExistErr(err) && len(c.recs) == 0 {
				return nil
			}
			return c.fail("claim", "ShiftExpiredTreasures: %v", err)
		}
		c.indexBuilt = true
		var picked []string
		for _, t := range resp.GetTreasures() {
			picked = append(picked, t.GetKey())
			if r := c.recs[t.GetKey()]; r != nil && tsNanos(t.ExpiredAt) != r.e() {
				return c.fail("get-expiry", "ShiftExpiredTreasures returned key %q with ExpiredAt=%v, reference %d", t.GetKey(), t.ExpiredAt, r.e())
			}
		}
		if o := c.checkClaimed(fmt.Sprintf("ShiftExpiredTreasures(HowMany=%d)", cl.HowMany), picked, cl.HowMany, t0, t1, true, c.indexed(), false); o != nil {
			return o
		}
		for _, k := range picked {
			delete(c.recs, k)
		}
		c.gone = picked
		c.touch("shift-expired")
	case 1:
		req := &hydrapb.PatchExpiredTreasuresRequest{IslandID: isl, SwampName: c.sn, HowMany: int32(cl.HowMany), Meta: cl.Meta.PB(c.env.Start)}
		if cl.WithOp {
			req.Ops = []*hydrapb.PatchOp{{Op: hydrapb.PatchOp_SET, Path: "claimed", Value: mpInt(1)}}
		}
		t0 := time.Now().UnixNano()
		resp, err, _, inc := Call(c.env, "PatchExpiredTreasures", req, c.env.R.G.PatchExpiredTreasures)
		t1 := time.Now().UnixNano()
		if inc != nil {
			return c.incident("PatchExpiredTreasures", inc)
		}
		if err != nil {
			return c.fail("claim", "PatchExpiredTreasures: %v", err)
		}
		c.indexBuilt = true
		var picked []string
		for _, p := range resp.GetPatched() {
			picked = append(picked, p.GetKey())
		}
		if o := c.checkClaimed(fmt.Sprintf("PatchExpiredTreasures(HowMany=%d)", cl.HowMany), picked, cl.HowMany, t0, t1, true, c.indexed(), false); o != nil {
			return o
		}
		exp, keep := c.expOfMeta(cl.Meta)
		for _, p := range resp.GetPatched() {
			r := c.recs[p.GetKey()]
			wantPatched := r.msgpack
			if (p.GetStatus() == hydrapb.PatchResult_PATCHED) != wantPatched {
				return c.fail("claim", "PatchExpiredTreasures: key %q (msgpack body: %v) got status %v", p.GetKey(), r.msgpack, p.GetStatus())
			}
			if wantPatched && !keep {
				if exp != r.e() {
					c.movedByPatch()
				}
				r.exp = []int64{exp}
			}
			// "ExpiredAt is the treasure's expiration time after the patch. Unset when the treasure has no expiration."
			if rep := tsNanos(p.ExpiredAt); rep != r.e() || (p.ExpiredAt != nil) != (r.e() != 0) {
				return c.fail("get-expiry", "PatchExpiredTreasures: key %q reported ExpiredAt=%v after the patch, reference %d", p.GetKey(), p.ExpiredAt, r.e())
			}
		}
		c.touch("patch-expired")
	case 2:
		ord := hydrapb.OrderType_ASC
		if cl.Desc {
			ord = hydrapb.OrderType_DESC
		}
		req := &hydrapb.ShiftMatchingTreasuresRequest{IslandID: isl, SwampName: c.sn, IndexType: hydrapb.IndexType_EXPIRATION_TIME, OrderType: ord, HowMany: int32(cl.HowMany)}
		cand := c.indexed()
		what := fmt.Sprintf("ShiftMatchingTreasures(EXPIRATION_TIME, %v, HowMany=%d", ord, cl.HowMany)
		if cl.FiltOff != nil {
			ts, n := c.relTS(cl.FiltOff)
			req.Filters = &hydrapb.FilterGroup{Filters: []*hydrapb.TreasureFilter{{Operator: hydrapb.Relational_LESS_THAN, CompareValue: &hydrapb.TreasureFilter_ExpiredAtVal{ExpiredAtVal: ts}}}}
			var f []keyExp
			for _, x := range cand {
				if x.exp < n {
					f = append(f, x)
				}
			}
			cand = f
			what += fmt.Sprintf(", ExpiredAt < start%+ds", *cl.FiltOff)
		}
		if cl.WinFrom != nil {
			ft, fn := c.relTS(cl.WinFrom)
			tt, tn := c.relTS(cl.WinTo)
			req.FromTime, req.ToTime = ft, tt
			var f []keyExp
			for _, x := range cand {
				if x.exp >= fn && x.exp < tn {
					f = append(f, x)
				}
			}
			cand = f
			what += fmt.Sprintf(", window [%+d,%+d)s", *cl.WinFrom, *cl.WinTo)
		}
		what += ")"
		resp, err, _, inc := Call(c.env, "ShiftMatchingTreasures", req, c.env.R.G.ShiftMatchingTreasures)
		if inc != nil {
			return c.incident("ShiftMatchingTreasures", inc)
		}
		if err != nil {
			return c.fail("claim", "%s: %v", what, err)
		}
		c.indexBuilt = true
		var picked []string
		for _, t := range resp.GetTreasures() {
			picked = append(picked, t.GetKey())
		}
		if o := c.checkClaimed(what, picked, cl.HowMany, 0, 0, false, cand, cl.Desc); o != nil {
			return o
		}
		for _, k := range picked {
			delete(c.recs, k)
		}
		c.gone = picked
		c.touch("shift-matching")
	}
	return nil
}

// ---------------------------------------------------------------------------

var c30Case atomic.Int64

var (
	c30ClientMu sync.Mutex
	c30Clients  = map[*rig.Rig]hydrapb.HydraideServiceClient{}
)

func c30Client(r *rig.Rig) hydrapb.HydraideServiceClient {
	c30ClientMu.Lock()
	defer c30ClientMu.Unlock()
	if c, has := c30Clients[r]; has {
		return c
	}
	c := r.Serve()
	c30Clients[r] = c
	return c
}

func runC30(h *RigHolder, leakOpen, resurrectOpen bool, wd time.Duration) func(C30Scenario) pbt.Outcome {
	return func(s C30Scenario) pbt.Outcome {
		mode := s.Mode % 3
		id := c30Case.Add(1)
		sn := fmt.Sprintf("%sc%d", c30Prefix[mode], id)
		r := h.Get()
		env := &Env{R: r, Keys: KeyPool, Swamps: []string{sn}, Start: time.Now(), Watchdog: wd}
		d := NewDriver(env, []bool{mode != 0})
		d.NoAssert = true
		d.G.DeleteRecreateDelete = resurrectOpen
		c := &c30Run{env: env, d: d, sn: sn, recs: map[string]*c30Rec{}, client: c30Client(r), start: env.Start.UnixNano(), leak: leakOpen,
			pathsAfterMove: map[string]bool{}, classes: map[string]bool{}}
		poisoned := false
		defer func() {
			if !poisoned {
				d.Cleanup()
			}
		}()
		ret := func(o *pbt.Outcome) pbt.Outcome {
			if o.Shape == "hang" {
				poisoned = true
				h.Poison()
			}
			return *o
		}
		reloads, probes, claims := 0, 0, 0
		nonTrivial := false
		for i := range s.Steps {
			st := &s.Steps[i]
			where := fmt.Sprintf("step %d (%s)", i, st.K)
			var o *pbt.Outcome
			switch st.K {
			case "set":
				o = c.doSet(st.Op)
			case "inc":
				o = c.doInc(st.Op)
			case "patch":
				o = c.doPatch(st.Op)
			case "delete":
				if _, inc := d.Step(st.Op); inc != nil {
					o = c.incident(where, inc)
				}
			case "close":
				if mode != 0 {
					if _, inc := d.Step(&Op{K: "close"}); inc != nil {
						o = c.incident(where, inc)
					} else {
						reloads++
						c.indexBuilt = false
					}
				}
			case "probe":
				probes++
				o = c.probe(st.Probe)
			case "claim":
				claims++
				o = c.claim(st.Claim)
				c.strict = true
			}
			if o != nil {
				o.Fail = where + ": " + o.Fail
				return ret(o)
			}
			if st.K != "probe" {
				if o := c.syncAfterMutation("after " + where); o != nil {
					return ret(o)
				}
			}
			if c.movedAfterBuild && len(c.pathsAfterMove) >= 2 {
				nonTrivial = true
			}
		}
		out := pbt.Outcome{NonTrivial: nonTrivial}
		if reloads > 0 {
			out.Classes = append(out.Classes, "has-reload")
		}
		if claims > 0 {
			out.Classes = append(out.Classes, "has-claim")
		}
		for p := range c.pathsAfterMove {
			out.Classes = append(out.Classes, "path-after-move:"+p)
		}
		for k := range c.classes {
			out.Classes = append(out.Classes, k)
		}
		for k := range d.Skipped {
			out.Classes = append(out.Classes, "skipped-open-finding:"+k)
		}
		out.Classes = append(out.Classes, []string{"swamp-in-memory", "swamp-persistent-1s", "swamp-persistent-immediate"}[mode])
		return out
	}
}

const c30Rule = "rapid-generated histories (2-22 steps + final probe) on one swamp x 6 keys (in-memory / persistent): Set with ExpiredAt past/future/none/boundary, IncrementInt64 with SetIfNotExist/SetIfExist ExpiredAt, " +
	"PatchTreasures with request- and key-level PatchMeta (SetExpiredAt past/future/boundary/epoch/pre-epoch, ClearExpiredAt, both), Delete, close+reload, interleaved with probes " +
	"(GetByIndex EXPIRATION_TIME ASC+DESC complete, From/Limit page in a FromTime/ToTime window, streamed filters ExpiredAt < T / < now / IS_NOT_EMPTY, Get) and claims " +
	"(ShiftExpiredTreasures, PatchExpiredTreasures with meta slide/clear and ops, ShiftMatchingTreasures on the expiration index with ExpiredAt filter or time window); after every mutation GetAll must report exactly the expiry the requests set. " +
	"Reference predicate expired <=> expiry != 0 && expiry < now over the call interval; expiries within 5 s of the case start are never asserted expired/unexpired; " +
	"non-trivial = an expiry was moved or cleared after the expiration index had been built and then read through >= 2 other paths; distinct = hash of the scenario"

func TestC30Main(t *testing.T) {
	h := NewRigHolder(c30RigOptions())
	defer h.Close()
	preOpen := pbt.Open("C30", fPreEpoch)
	leakOpen := pbt.Open("C06", fLeak)
	resOpen := pbt.Open("C05", fResurrect)
	if preOpen {
		pbt.Excluded("C30", "main", "pre-epoch SetExpiredAt through PatchMeta (open finding "+fPreEpoch+")")
	}
	if leakOpen {
		pbt.Excluded("C30", "main", "Increment with a false condition that mutates unsaved state (open C06 finding "+fLeak+")")
	}
	if resOpen {
		pbt.Excluded("C30", "main", "second removal of a deleted+re-created on-disk key before the next flush (open C05 finding "+fResurrect+")")
	}
	pbt.Main(t, pbt.Spec[C30Scenario]{
		ID: "C30", Facet: "main", Rule: c30Rule,
		Quick: 6000, Thorough: 80000,
		Gen: genC30With(!preOpen), Run: runC30(h, leakOpen, resOpen, 10*time.Second),
	})
}

// --- witness -------------------------------------------------------------------

func TestC30WitnessPreEpoch(t *testing.T) {
	h := NewRigHolder(c30RigOptions())
	defer h.Close()
	gen := func(t *rapid.T) C30Scenario {
		s := genC30With(true)(t)
		pre := &When{Sec: pick(t, "wpre", []int64{-1, -1000000000}), Nano: pick(t, "wprenano", []int32{0, 5})}
		head := []C30Step{
			{K: "set", Op: &Op{K: "set", Sets: []SetPart{{Create: true, Overwrite: true, KVs: []KVSpec{
				{Key: 0, V: Val{T: int(KBytes), B: bytesPool[3], M: &Meta{EAt: &When{Rel: true, Sec: 600}}}},
				{Key: 1, V: Val{T: int(KBytes), B: bytesPool[4], M: &Meta{EAt: &When{Rel: true, Sec: -600}}}}}}}}},
			{K: "patch", Op: &Op{K: "patch", Patch: &PatchSpec{Items: []PatchItem{{Key: 0, Meta: &PatchMetaSpec{EAt: pre}}}}}},
		}
		s.Steps = append(head, s.Steps...)
		return s
	}
	pbt.Witness(t, pbt.Spec[C30Scenario]{
		ID: "C30", Facet: "witness-pre-epoch", Rule: "Set k0 (msgpack body, expiry in 10 min) and k1; PatchTreasures k0 with PatchMeta.SetExpiredAt = 1969-12-31T23:59:59Z (or 1938); then the main generator's steps with pre-epoch values enabled",
		Quick: 40, Thorough: 400, Gen: gen, Run: runC30(h, pbt.Open("C06", fLeak), pbt.Open("C05", fResurrect), 10*time.Second),
	}, fPreEpoch, "get-expiry")
}
