package kv

import (
	"fmt"
	"sort"
	"sync/atomic"
	"testing"
	"time"

	hydrapb "github.com/hydraide/hydraide/sdk/go/hydraidego/v3/hydraidepbgo"
	"google.golang.org/protobuf/proto"
	"pgregory.net/rapid"

	"verifharness/internal/pbt"
	"verifharness/internal/rig"
)

// C05 — Close and reload preserve every record exactly.

type C05Scenario struct {
	Mode int  `json:"mode"` // 1 persistent write interval 1 s, 2 write interval 0
	Ops  []Op `json:"ops"`  // data ops + "close" / "restart" markers; a final close is always added
}

var c05Prefix = []string{"", "c05p/r/", "c05z/r/"}

func c05RigOptions() rig.Options {
	return rig.Options{Patterns: []rig.Pattern{
		{Pattern: "c05p/r/*", CloseAfterIdleSec: 600, WriteIntervalSec: 1},
		{Pattern: "c05z/r/*", CloseAfterIdleSec: 600, WriteIntervalSec: 0},
	}}
}

// ---------------------------------------------------------------------------
// snapshot: every read path, reduced to per-key views (swamp-level existence of
// an EMPTY swamp is not part of the property and is normalised away)

type c05Snap struct {
	get, byKeys, all map[string]string // key -> deterministic wire bytes of the treasure ("" = absent)
	index            []string          // GetByIndex(KEY ASC): "key=bytes" in order
	count            int32
	exist            map[string]bool
	errs             []string // unexpected errors
}

var detMarshal = proto.MarshalOptions{Deterministic: true}

func tbytes(t *hydrapb.Treasure) string {
	b, err := detMarshal.Marshal(t)
	if err != nil {
		return "marshal-error:" + err.Error()
	}
	return string(b)
}

func takeSnap(e *Env, sn string) (*c05Snap, *Incident) {
	s := &c05Snap{get: map[string]string{}, byKeys: map[string]string{}, all: map[string]string{}, exist: map[string]bool{}}
	isl := rig.Island(sn)
	g := e.R.G
	note := func(what string, err error) {
		if err != nil && !notExistErr(err) {
			s.errs = append(s.errs, fmt.Sprintf("%s: %v", what, err))
		}
	}
	gr, err, _, inc := Call(e, "Get", &hydrapb.GetRequest{Swamps: []*hydrapb.GetSwamp{{IslandID: isl, SwampName: sn, Keys: e.Keys}}}, g.Get)
	if inc != nil {
		return nil, inc
	}
	note("Get", err)
	for _, sw := range gr.GetSwamps() {
		for _, t := range sw.GetTreasures() {
			if t.GetIsExist() {
				s.get[t.GetKey()] = tbytes(t)
			}
		}
	}
	br, err, _, inc := Call(e, "GetByKeys", &hydrapb.GetByKeysRequest{IslandID: isl, SwampName: sn, Keys: e.Keys}, g.GetByKeys)
	if inc != nil {
		return nil, inc
	}
	note("GetByKeys", err)
	for _, t := range br.GetTreasures() {
		s.byKeys[t.GetKey()] = tbytes(t)
	}
	ar, err, _, inc := Call(e, "GetAll", &hydrapb.GetAllRequest{IslandID: isl, SwampName: sn}, g.GetAll)
	if inc != nil {
		return nil, inc
	}
	note("GetAll", err)
	for _, t := range ar.GetTreasures() {
		s.all[t.GetKey()] = tbytes(t)
	}
	ir, err, _, inc := Call(e, "GetByIndex", &hydrapb.GetByIndexRequest{IslandID: isl, SwampName: sn, IndexType: hydrapb.IndexType_KEY, OrderType: hydrapb.OrderType_ASC}, g.GetByIndex)
	if inc != nil {
		return nil, inc
	}
	note("GetByIndex", err)
	for _, t := range ir.GetTreasures() {
		s.index = append(s.index, t.GetKey()+"="+tbytes(t))
	}
	cr, err, _, inc := Call(e, "Count", &hydrapb.CountRequest{Swamps: []*hydrapb.CountRequest_SwampIdentifier{{IslandID: isl, SwampName: sn}}}, g.Count)
	if inc != nil {
		return nil, inc
	}
	note("Count", err)
	for _, c := range cr.GetSwamps() {
		s.count = c.GetCount()
	}
	for _, k := range e.Keys {
		kr, err, _, inc := Call(e, "IsKeyExist", &hydrapb.IsKeyExistRequest{IslandID: isl, SwampName: sn, Key: k}, g.IsKeyExist)
		if inc != nil {
			return nil, inc
		}
		note("IsKeyExist", err)
		s.exist[k] = kr.GetIsExist()
	}
	return s, nil
}

func describeBytes(b string) string {
	if b == "" {
		return "absent"
	}
	t := &hydrapb.Treasure{}
	if err := proto.Unmarshal([]byte(b), t); err != nil {
		return fmt.Sprintf("%x", b)
	}
	return fmt.Sprintf("{%v}", t)
}

func diffMaps(what string, a, b map[string]string, keys []string) string {
	for _, k := range keys {
		if a[k] != b[k] {
			return fmt.Sprintf("%s key %q: before %s, after reload %s", what, k, describeBytes(a[k]), describeBytes(b[k]))
		}
	}
	return ""
}

func (a *c05Snap) diff(b *c05Snap, keys []string) string {
	if len(a.errs) > 0 || len(b.errs) > 0 {
		return fmt.Sprintf("read errors: before %v, after %v", a.errs, b.errs)
	}
	for _, d := range []string{diffMaps("Get", a.get, b.get, keys), diffMaps("GetByKeys", a.byKeys, b.byKeys, keys), diffMaps("GetAll", a.all, b.all, keys)} {
		if d != "" {
			return d
		}
	}
	if len(a.index) != len(b.index) {
		return fmt.Sprintf("GetByIndex(KEY): %d records before, %d after reload", len(a.index), len(b.index))
	}
	for i := range a.index {
		if a.index[i] != b.index[i] {
			return fmt.Sprintf("GetByIndex(KEY) position %d differs: before %q, after %q", i, a.index[i], b.index[i])
		}
	}
	if a.count != b.count {
		return fmt.Sprintf("Count: %d before, %d after reload", a.count, b.count)
	}
	for _, k := range keys {
		if a.exist[k] != b.exist[k] {
			return fmt.Sprintf("IsKeyExist(%q): %v before, %v after reload", k, a.exist[k], b.exist[k])
		}
	}
	// the read paths must also agree with each other
	for _, k := range keys {
		if b.get[k] != b.all[k] || b.byKeys[k] != b.all[k] || (b.all[k] != "") != b.exist[k] {
			return fmt.Sprintf("after reload the read paths disagree on key %q: Get %s, GetByKeys %s, GetAll %s, IsKeyExist %v", k, describeBytes(b.get[k]), describeBytes(b.byKeys[k]), describeBytes(b.all[k]), b.exist[k])
		}
	}
	return ""
}

// ---------------------------------------------------------------------------

func c05Guards() Guards {
	return Guards{
		SliceDeleteDeadlock:  pbt.Open("C06", fDeadlock),
		FailedCondLeak:       pbt.Open("C06", fLeak),
		TypedZeroReload:      pbt.Open("C05", fTypedZero),
		DeleteRecreateDelete: pbt.Open("C05", fResurrect),
	}
}

func genC05With(zeroPct int) func(t *rapid.T) C05Scenario {
	return func(t *rapid.T) C05Scenario {
		s := C05Scenario{Mode: pick(t, "mode", []int{1, 1, 2})}
		cfg := GenCfg{ZeroPct: zeroPct, Exotic: true, MetaPct: 25, VoidPct: 8, MsgpackOK: true}
		// expiry for Increment / Patch metadata: also pre-1970 times with nanoseconds
		// (Set ignores a non-positive ExpiredAt, the metadata paths store it)
		absExp := func(t *rapid.T) *When {
			w := pick(t, "exp", c05ExpTimes)
			return &w
		}
		n := rapid.IntRange(1, 25).Draw(t, "nops")
		closes := 0
		for i := 0; i < n; i++ {
			c := rapid.IntRange(0, 99).Draw(t, "opclass")
			key := func() int { return rapid.IntRange(0, len(KeyPool)-1).Draw(t, "key") }
			switch {
			case c < 32:
				p := SetPart{Create: true, Overwrite: true}
				switch rapid.IntRange(0, 9).Draw(t, "flags") {
				case 0:
					p.Create = false
				case 1:
					p.Overwrite = false
				}
				for _, k := range GenKeys(t, "setkeys", 1, 3) {
					p.KVs = append(p.KVs, KVSpec{Key: k, V: GenVal(t, cfg)})
				}
				s.Ops = append(s.Ops, Op{K: "set", Sets: []SetPart{p}})
			case c < 45:
				s.Ops = append(s.Ops, Op{K: "inc", Key: key(), Inc: GenInc(t, cfg, func(t *rapid.T) *When {
					if rapid.Bool().Draw(t, "inc-eat") {
						return absExp(t)
					}
					return nil
				})})
			case c < 58:
				s.Ops = append(s.Ops, Op{K: "patch", Patch: GenPatch(t, absExp)})
			case c < 65:
				s.Ops = append(s.Ops, Op{K: "push", Sl: GenSliceParts(t, 2, true)})
			case c < 69:
				s.Ops = append(s.Ops, Op{K: "sdel", Sl: GenSliceParts(t, 2, false)})
			case c < 82:
				s.Ops = append(s.Ops, Op{K: "delete", Parts: []KeysPart{{Keys: GenKeys(t, "delkeys", 1, 3)}}})
			case c < 87:
				s.Ops = append(s.Ops, Op{K: "shift", Keys: GenKeys(t, "shkeys", 1, 2)})
			default:
				if closes < 2 {
					closes++
					// (a middle value: rapid favours the ends of a range)
					if rapid.IntRange(0, 199).Draw(t, "restart") == 137 {
						s.Ops = append(s.Ops, Op{K: "restart"})
					} else {
						s.Ops = append(s.Ops, Op{K: "close"})
					}
				}
			}
		}
		return s
	}
}

var c05ExpTimes = append(append([]When{}, absTimes...), When{Sec: -1, Nano: 5}, When{Sec: -1000000000}, When{Sec: -86400, Nano: 999999999})

var c05Case atomic.Int64

func runC05(h *RigHolder, guards Guards, wd time.Duration) func(C05Scenario) pbt.Outcome {
	return func(s C05Scenario) pbt.Outcome {
		mode := s.Mode
		if mode != 2 {
			mode = 1
		}
		id := c05Case.Add(1)
		sn := fmt.Sprintf("%sc%d", c05Prefix[mode], id)
		env := &Env{R: h.Get(), Keys: KeyPool, Swamps: []string{sn}, Start: time.Now(), Watchdog: wd}
		d := NewDriver(env, []bool{true})
		d.G, d.NoAssert = guards, true
		poisoned := false
		defer func() {
			if !poisoned {
				d.Cleanup()
			}
		}()
		hang := func(where string, inc *Incident) pbt.Outcome {
			if inc.Kind == "hang" {
				poisoned = true
				h.Poison()
			}
			return pbt.Failf(inc.Kind, "%s: %s", where, inc.Msg)
		}
		var zeroSeen, modifiedAfterLoad, deleted, restarted bool
		reloads, skippedCloses := 0, 0
		loaded := false
		ops := append(append([]Op{}, s.Ops...), Op{K: "close"})
		for i := range ops {
			op := &ops[i]
			if op.K != "close" && op.K != "restart" {
				before := d.M.Count(sn)
				_, inc := d.Step(op)
				if inc != nil {
					return hang(fmt.Sprintf("step %d (%s)", i, op.K), inc)
				}
				if _, inc := d.CheckContents(); inc != nil {
					return hang(fmt.Sprintf("after step %d", i), inc)
				}
				if d.M.Count(sn) < before {
					deleted = true
				}
				if loaded && (op.K == "set" || op.K == "inc" || op.K == "patch" || op.K == "push" || op.K == "sdel") {
					modifiedAfterLoad = true
				}
				continue
			}
			// close / restart: snapshot, close, snapshot, compare
			hasZero := false
			for k := range d.M.sw(sn).Keys {
				if r := d.M.Rec(sn, k); r != nil && r.V.IsTypedZero() {
					hasZero = true
				}
			}
			if hasZero && guards.TypedZeroReload {
				skippedCloses++
				continue
			}
			zeroSeen = zeroSeen || hasZero
			a, inc := takeSnap(env, sn)
			if inc != nil {
				return hang(fmt.Sprintf("snapshot before close at step %d", i), inc)
			}
			if op.K == "restart" {
				if !h.Restart(60 * time.Second) {
					poisoned = true
					return pbt.Failf("hang", "step %d: graceful StopHydra did not finish within 60 s", i)
				}
				env.R = h.Get()
				restarted = true
			} else {
				done := make(chan bool, 1)
				go func() { done <- env.R.CloseSwamp(sn) }()
				select {
				case <-done:
				case <-time.After(env.wd()):
					poisoned = true
					h.Poison()
					return pbt.Failf("hang", "step %d: closing the swamp did not finish within %v", i, env.wd())
				}
			}
			d.flushed(sn)
			reloads++
			loaded = true
			b, inc := takeSnap(env, sn)
			if inc != nil {
				return hang(fmt.Sprintf("snapshot after reload at step %d", i), inc)
			}
			if df := a.diff(b, env.Keys); df != "" {
				return pbt.Failf("mismatch", "reload #%d (%s at step %d, write interval %d): %s", reloads, op.K, i, 2-mode, df)
			}
			if _, inc := d.CheckContents(); inc != nil {
				return hang("sync after reload", inc)
			}
		}
		out := pbt.Outcome{NonTrivial: reloads > 0 && (zeroSeen || modifiedAfterLoad) && deleted}
		if reloads == 0 {
			out.Classes = append(out.Classes, "no-reload-executed")
		}
		if zeroSeen {
			out.Classes = append(out.Classes, "typed-zero-value-reloaded")
		}
		if modifiedAfterLoad {
			out.Classes = append(out.Classes, "modified-after-load")
		}
		if deleted {
			out.Classes = append(out.Classes, "has-deleted-key")
		}
		if restarted {
			out.Classes = append(out.Classes, "real-stop-and-restart")
		}
		if reloads >= 2 {
			out.Classes = append(out.Classes, "multiple-reloads")
		}
		if skippedCloses > 0 {
			out.Classes = append(out.Classes, "skipped-open-finding:close-with-typed-zero-value")
		}
		out.Classes = append(out.Classes, []string{"", "write-interval-1s", "write-interval-0"}[mode])
		for c := range d.Skipped {
			out.Classes = append(out.Classes, "skipped-open-finding:"+c)
		}
		return out
	}
}

const c05Rule = "rapid-generated histories (1-25 ops) on one persistent swamp (write interval 1 s or 0): Set with all 15 value kinds (incl. NaN, -0.0, 300-byte and msgpack bytes) " +
	"and optional CreatedAt/By, UpdatedAt/By, ExpiredAt; all ten Increment* with conditions and metadata (expiries incl. pre-1970 with nanoseconds); PatchTreasures (create, SET/INC/DELETE ops, request- and key-level meta incl. set/clear expiry); " +
	"Uint32SlicePush/Delete; Delete; ShiftByKeys; 1-3 reloads per history (CloseSwamp; about 1 in 200 through a real StopHydra + new rig on the same root). " +
	"Oracle: Get, GetByKeys, GetAll, GetByIndex(KEY), Count and IsKeyExist for all six keys taken immediately before the close equal (deterministic wire bytes, so floats by bits) those taken after the reload; " +
	"non-trivial = (a typed zero-like value was reloaded or a record loaded from disk was modified) and a key was deleted; distinct = hash of the scenario"

func TestC05Main(t *testing.T) {
	h := NewRigHolder(c05RigOptions())
	defer h.Close()
	g := c05Guards()
	zeroPct := 27
	if g.TypedZeroReload {
		zeroPct = 0
		pbt.Excluded("C05", "main", "typed zero-like values (0, -0.0, \"\", false, empty bytes): not generated, and no close while an increment result is 0 (open finding "+fTypedZero+")")
	}
	if g.DeleteRecreateDelete {
		pbt.Excluded("C05", "main", "second removal of a deleted+re-created on-disk key before the next flush (open finding "+fResurrect+")")
	}
	if g.FailedCondLeak {
		pbt.Excluded("C05", "main", "Increment with a false condition that mutates unsaved state (open C06 finding "+fLeak+")")
	}
	if g.SliceDeleteDeadlock {
		pbt.Excluded("C05", "main", "Uint32SliceDelete emptying a slice (open C06 finding "+fDeadlock+")")
	}
	pbt.Main(t, pbt.Spec[C05Scenario]{
		ID: "C05", Facet: "main", Rule: c05Rule,
		Quick: 3000, Thorough: 60000,
		Gen: genC05With(zeroPct), Run: runC05(h, g, 10*time.Second),
	})
}

var _ = sort.Strings

// --- witnesses of recorded findings -------------------------------------------

func TestC05WitnessTypedZero(t *testing.T) {
	h := NewRigHolder(c05RigOptions())
	defer h.Close()
	g := c05Guards()
	g.TypedZeroReload = false
	gen := func(t *rapid.T) C05Scenario {
		s := genC05With(45)(t)
		// make sure a typed zero value is stored when the history ends
		z := Val{T: pick(t, "zkind", []int{1, 2, 3, 4, 5, 6, 7, 8, 9, 10, 11, 12, 13})}
		s.Ops = append(s.Ops, Op{K: "set", Sets: []SetPart{{Create: true, Overwrite: true, KVs: []KVSpec{{Key: 5, V: z}, {Key: 4, V: Val{T: int(KInt8), I: 1}}}}}})
		return s
	}
	pbt.Witness(t, pbt.Spec[C05Scenario]{
		ID: "C05", Facet: "witness-typed-zero", Rule: "main generator with 45 % zero-like typed values and a final Set of a typed zero value (0, 0.0, \"\", false, empty bytes) before the reload",
		Quick: 60, Thorough: 600, Gen: gen, Run: runC05(h, g, 10*time.Second),
	}, fTypedZero, "mismatch")
}

func TestC05WitnessResurrect(t *testing.T) {
	h := NewRigHolder(c05RigOptions())
	defer h.Close()
	g := c05Guards()
	g.DeleteRecreateDelete = false
	gen := func(t *rapid.T) C05Scenario {
		k := rapid.IntRange(0, 3).Draw(t, "key")
		var recreate Op
		switch rapid.IntRange(0, 2).Draw(t, "how") {
		case 0:
			recreate = Op{K: "inc", Key: k, Inc: &IncSpec{Kind: int(KInt8), ByI: 100}}
		case 1:
			recreate = Op{K: "set", Sets: []SetPart{{Create: true, Overwrite: true, KVs: []KVSpec{{Key: k, V: Val{T: int(KString), S: "new"}}}}}}
		default:
			recreate = Op{K: "push", Sl: []SlicePart{{Key: k, Vals: []uint32{1, 2}}}}
		}
		second := Op{K: "delete", Parts: []KeysPart{{Keys: []int{k}}}}
		if rapid.Bool().Draw(t, "shift") {
			second = Op{K: "shift", Keys: []int{k}}
		}
		return C05Scenario{Mode: 1, Ops: []Op{
			{K: "set", Sets: []SetPart{{Create: true, Overwrite: true, KVs: []KVSpec{{Key: k, V: Val{T: int(KInt8), I: 2}}, {Key: 5, V: Val{T: int(KInt8), I: 7}}}}}},
			{K: "close"},
			{K: "delete", Parts: []KeysPart{{Keys: []int{k}}}},
			recreate,
			second,
		}}
	}
	pbt.Witness(t, pbt.Spec[C05Scenario]{
		ID: "C05", Facet: "witness-resurrect", Rule: "Set k (+ a second key); close; Delete k; re-create k (Increment / Set / Uint32SlicePush); Delete or ShiftByKeys k; reload",
		Quick: 24, Thorough: 100, Gen: gen, Run: runC05(h, g, 10*time.Second),
	}, fResurrect, "mismatch")
}
