package kv

import (
	"context"
	"fmt"
	"math"
	"os"
	"sync"
	"time"

	hydrapb "github.com/hydraide/hydraide/sdk/go/hydraidego/v3/hydraidepbgo"
	"google.golang.org/protobuf/proto"
	"google.golang.org/protobuf/types/known/timestamppb"

	"verifharness/internal/rig"
)

// ---------------------------------------------------------------------------
// scenario vocabulary (JSON-serialisable; indices into small pools)

// When is a point in time: absolute unix (Sec, Nano) or relative to the start
// of the case (Rel; Sec may be negative).
type When struct {
	Rel  bool  `json:"rel,omitempty"`
	Sec  int64 `json:"sec"`
	Nano int32 `json:"nano,omitempty"`
}

func (w *When) TS(start time.Time) *timestamppb.Timestamp {
	if w == nil {
		return nil
	}
	if w.Rel {
		return timestamppb.New(start.Add(time.Duration(w.Sec)*time.Second + time.Duration(w.Nano)))
	}
	return &timestamppb.Timestamp{Seconds: w.Sec, Nanos: w.Nano}
}

// Nanos returns the unix-nano value the server stores for this time.
func (w *When) Nanos(start time.Time) int64 {
	ts := w.TS(start)
	return ts.GetSeconds()*1e9 + int64(ts.GetNanos())
}

type Meta struct {
	CAt *When   `json:"cat,omitempty"`
	UAt *When   `json:"uat,omitempty"`
	EAt *When   `json:"eat,omitempty"`
	CBy *string `json:"cby,omitempty"`
	UBy *string `json:"uby,omitempty"`
}

// Val is a value for Set. T follows Kind. Floats are kept as bit patterns so
// that −0.0 and NaN survive the JSON replay file.
type Val struct {
	T  int      `json:"t"`
	I  int64    `json:"i,omitempty"`
	U  uint64   `json:"u,omitempty"`
	FB uint64   `json:"fb,omitempty"`
	S  string   `json:"s,omitempty"`
	B  []byte   `json:"b,omitempty"`
	L  []uint32 `json:"l,omitempty"`
	// NoVoidFlag: void expressed by sending no value field at all instead of VoidVal=true
	NoVoidFlag bool  `json:"nvf,omitempty"`
	M          *Meta `json:"m,omitempty"`
}

func (v Val) F64() float64 { return math.Float64frombits(v.FB) }
func (v Val) F32() float32 { return math.Float32frombits(uint32(v.FB)) }

func (v Val) KV(key string, start time.Time) *hydrapb.KeyValuePair {
	kv := &hydrapb.KeyValuePair{Key: key}
	switch Kind(v.T) {
	case KInt8:
		x := int32(v.I)
		kv.Int8Val = &x
	case KInt16:
		x := int32(v.I)
		kv.Int16Val = &x
	case KInt32:
		x := int32(v.I)
		kv.Int32Val = &x
	case KInt64:
		x := v.I
		kv.Int64Val = &x
	case KUint8:
		x := uint32(v.U)
		kv.Uint8Val = &x
	case KUint16:
		x := uint32(v.U)
		kv.Uint16Val = &x
	case KUint32:
		x := uint32(v.U)
		kv.Uint32Val = &x
	case KUint64:
		x := v.U
		kv.Uint64Val = &x
	case KFloat32:
		x := v.F32()
		kv.Float32Val = &x
	case KFloat64:
		x := v.F64()
		kv.Float64Val = &x
	case KString:
		x := v.S
		kv.StringVal = &x
	case KBool:
		if v.I != 0 {
			kv.BoolVal = hydrapb.Boolean_TRUE.Enum()
		} else {
			kv.BoolVal = hydrapb.Boolean_FALSE.Enum()
		}
	case KBytes:
		kv.BytesVal = append([]byte{}, v.B...)
	case KSlice:
		kv.Uint32Slice = append([]uint32{}, v.L...)
	default:
		if !v.NoVoidFlag {
			t := true
			kv.VoidVal = &t
		}
	}
	if v.M != nil {
		kv.CreatedAt, kv.UpdatedAt, kv.ExpiredAt = v.M.CAt.TS(start), v.M.UAt.TS(start), v.M.EAt.TS(start)
		kv.CreatedBy, kv.UpdatedBy = v.M.CBy, v.M.UBy
	}
	return kv
}

type KVSpec struct {
	Key int `json:"key"`
	V   Val `json:"v"`
}

type SetPart struct {
	S         int      `json:"s"`
	Create    bool     `json:"c,omitempty"`
	Overwrite bool     `json:"o,omitempty"`
	KVs       []KVSpec `json:"kvs"`
}

type KeysPart struct {
	S    int   `json:"s"`
	Keys []int `json:"keys,omitempty"`
}

type IncMetaSpec struct {
	CAt bool   `json:"cat,omitempty"`
	UAt bool   `json:"uat,omitempty"`
	CBy string `json:"cby,omitempty"`
	UBy string `json:"uby,omitempty"`
	EAt *When  `json:"eat,omitempty"`
}

// IncSpec: Kind 1..10 (KInt8..KFloat64). By / Ref: I for signed, U for
// unsigned, FB (float64 bits) for floats.
type IncSpec struct {
	Kind  int          `json:"kind"`
	ByI   int64        `json:"byi,omitempty"`
	ByU   uint64       `json:"byu,omitempty"`
	ByF   uint64       `json:"byf,omitempty"`
	HasC  bool         `json:"hasc,omitempty"`
	COp   int          `json:"cop,omitempty"` // hydrapb.Relational_Operator 0..5
	RefI  int64        `json:"refi,omitempty"`
	RefU  uint64       `json:"refu,omitempty"`
	RefF  uint64       `json:"reff,omitempty"`
	IfNot *IncMetaSpec `json:"ifnot,omitempty"`
	IfEx  *IncMetaSpec `json:"ifex,omitempty"`
}

type SlicePart struct {
	Key  int      `json:"key"`
	Vals []uint32 `json:"vals,omitempty"`
}

// PatchMetaSpec mirrors PatchMeta.
type PatchMetaSpec struct {
	UAt   bool    `json:"uat,omitempty"`
	UBy   *string `json:"uby,omitempty"`
	CAt   bool    `json:"cat,omitempty"`
	CBy   *string `json:"cby,omitempty"`
	EAt   *When   `json:"eat,omitempty"`
	Clear bool    `json:"clear,omitempty"`
}

func (p *PatchMetaSpec) PB(start time.Time) *hydrapb.PatchMeta {
	if p == nil {
		return nil
	}
	return &hydrapb.PatchMeta{SetUpdatedAt: p.UAt, SetUpdatedBy: p.UBy, SetCreatedAt: p.CAt, SetCreatedBy: p.CBy, SetExpiredAt: p.EAt.TS(start), ClearExpiredAt: p.Clear}
}

// PatchOpSpec: a tiny op set over a flat msgpack map. Field = "f0".."f3";
// Kind: 0 SET int, 1 SET string, 2 INC int, 3 DELETE.
type PatchOpSpec struct {
	Kind  int    `json:"kind"`
	Field int    `json:"field"`
	N     int    `json:"n,omitempty"` // 0..127
	Str   string `json:"str,omitempty"`
}

type PatchItem struct {
	Key  int            `json:"key"`
	Ops  []PatchOpSpec  `json:"ops,omitempty"`
	Meta *PatchMetaSpec `json:"meta,omitempty"`
}

type PatchSpec struct {
	Create bool           `json:"create,omitempty"`
	Seed   int            `json:"seed,omitempty"` // 0 none, 1 {"f0":1}, 2 {}
	Items  []PatchItem    `json:"items"`
	Meta   *PatchMetaSpec `json:"meta,omitempty"`
}

// Op is one step of an API history.
type Op struct {
	K     string      `json:"k"`
	S     int         `json:"s,omitempty"`
	Key   int         `json:"key,omitempty"`
	Keys  []int       `json:"keys,omitempty"`
	Sets  []SetPart   `json:"sets,omitempty"`
	Parts []KeysPart  `json:"parts,omitempty"`
	Inc   *IncSpec    `json:"inc,omitempty"`
	Sl    []SlicePart `json:"sl,omitempty"`
	U32   uint32      `json:"u32,omitempty"`
	N     int         `json:"n,omitempty"` // shiftexp: HowMany
	Patch *PatchSpec  `json:"patch,omitempty"`
}

// ---------------------------------------------------------------------------
// msgpack (the few encodings the patch ops need)

func mpInt(n int) []byte { return []byte{byte(n & 0x7f)} } // positive fixint
func mpStr(s string) []byte {
	if len(s) > 31 {
		s = s[:31]
	}
	return append([]byte{0xa0 | byte(len(s))}, s...)
}
func mpMap1(k string, v []byte) []byte { return append(append([]byte{0x81}, mpStr(k)...), v...) }

var PatchFields = []string{"f0", "f1", "f2", "f3"}

func (p PatchOpSpec) PB() *hydrapb.PatchOp {
	f := PatchFields[p.Field%len(PatchFields)]
	switch p.Kind % 4 {
	case 0:
		return &hydrapb.PatchOp{Op: hydrapb.PatchOp_SET, Path: f, Value: mpInt(p.N)}
	case 1:
		return &hydrapb.PatchOp{Op: hydrapb.PatchOp_SET, Path: f, Value: mpStr(p.Str)}
	case 2:
		return &hydrapb.PatchOp{Op: hydrapb.PatchOp_INC, Path: f, Value: mpInt(p.N%16 + 1)}
	default:
		return &hydrapb.PatchOp{Op: hydrapb.PatchOp_DELETE, Path: f}
	}
}

// MsgpackBody wraps a raw msgpack map with the 2-byte magic prefix the SDK
// uses for msgpack-encoded BytesVal values (0xC7 0x00).
func MsgpackBody(raw []byte) []byte { return append([]byte{0xC7, 0x00}, raw...) }

// ---------------------------------------------------------------------------
// executor

// Incident: a call that did not return, or a panic the gateway recovered.
type Incident struct {
	Kind string // "hang" | "panic"
	Msg  string
}

type Env struct {
	R        *rig.Rig
	Swamps   []string
	Keys     []string
	Start    time.Time
	Watchdog time.Duration
	Calls    int
}

func (e *Env) SN(i int) string { return e.Swamps[i%len(e.Swamps)] }
func (e *Env) KN(i int) string { return e.Keys[i%len(e.Keys)] }
func (e *Env) KNs(is []int) []string {
	out := make([]string, len(is))
	for i, k := range is {
		out[i] = e.KN(k)
	}
	return out
}

func wire[T proto.Message](m T) T {
	if !m.ProtoReflect().IsValid() {
		return m
	}
	b, err := proto.Marshal(m)
	if err != nil {
		panic(fmt.Sprintf("cannot marshal %T: %v", m, err))
	}
	n := m.ProtoReflect().New().Interface().(T)
	if err := proto.Unmarshal(b, n); err != nil {
		panic(err)
	}
	return n
}

// Call runs one handler under the watchdog. Request and response go through a
// protobuf marshal/unmarshal round trip, exactly what a gRPC client would see.
// isNil reports a (nil, nil) return.
func Call[Q, R proto.Message](e *Env, name string, req Q, f func(context.Context, Q) (R, error)) (resp R, err error, isNil bool, inc *Incident) {
	e.Calls++
	wd := e.Watchdog
	if wd == 0 {
		wd = 10 * time.Second
	}
	q := wire(req)
	p0 := e.R.Logs.Panics()
	type out struct {
		r   R
		err error
	}
	ch := make(chan out, 1)
	go func() {
		r, err := f(context.Background(), q)
		ch <- out{r, err}
	}()
	timer := time.NewTimer(wd)
	defer timer.Stop()
	select {
	case o := <-ch:
		if p1 := e.R.Logs.Panics(); p1 > p0 {
			rec := e.R.Logs.Recent(3)
			return resp, o.err, true, &Incident{Kind: "panic", Msg: fmt.Sprintf("%s: the gateway recovered a panic (%v)", name, rec)}
		}
		if !o.r.ProtoReflect().IsValid() {
			return o.r, o.err, true, nil
		}
		return wire(o.r), o.err, false, nil
	case <-timer.C:
		return resp, nil, true, &Incident{Kind: "hang", Msg: fmt.Sprintf("%s did not return within %v (request %v)", name, wd, req)}
	}
}

// --- request builders --------------------------------------------------------

func (e *Env) SetReq(op *Op) *hydrapb.SetRequest {
	req := &hydrapb.SetRequest{}
	for _, p := range op.Sets {
		sn := e.SN(p.S)
		sr := &hydrapb.SwampRequest{IslandID: rig.Island(sn), SwampName: sn, CreateIfNotExist: p.Create, Overwrite: p.Overwrite}
		for _, kv := range p.KVs {
			sr.KeyValues = append(sr.KeyValues, kv.V.KV(e.KN(kv.Key), e.Start))
		}
		req.Swamps = append(req.Swamps, sr)
	}
	return req
}

func (e *Env) GetReq(op *Op) *hydrapb.GetRequest {
	req := &hydrapb.GetRequest{}
	for _, p := range op.Parts {
		sn := e.SN(p.S)
		req.Swamps = append(req.Swamps, &hydrapb.GetSwamp{IslandID: rig.Island(sn), SwampName: sn, Keys: e.KNs(p.Keys)})
	}
	return req
}

func (e *Env) DeleteReq(op *Op) *hydrapb.DeleteRequest {
	req := &hydrapb.DeleteRequest{}
	for _, p := range op.Parts {
		sn := e.SN(p.S)
		req.Swamps = append(req.Swamps, &hydrapb.DeleteRequest_SwampKeys{IslandID: rig.Island(sn), SwampName: sn, Keys: e.KNs(p.Keys)})
	}
	return req
}

func (e *Env) CountReq(op *Op) *hydrapb.CountRequest {
	req := &hydrapb.CountRequest{}
	for _, p := range op.Parts {
		sn := e.SN(p.S)
		req.Swamps = append(req.Swamps, &hydrapb.CountRequest_SwampIdentifier{IslandID: rig.Island(sn), SwampName: sn})
	}
	return req
}

func (e *Env) PushReq(op *Op) *hydrapb.AddToUint32SlicePushRequest {
	sn := e.SN(op.S)
	req := &hydrapb.AddToUint32SlicePushRequest{IslandID: rig.Island(sn), SwampName: sn}
	for _, p := range op.Sl {
		req.KeySlicePairs = append(req.KeySlicePairs, &hydrapb.KeySlicePair{Key: e.KN(p.Key), Values: p.Vals})
	}
	return req
}

func (e *Env) SliceDeleteReq(op *Op) *hydrapb.Uint32SliceDeleteRequest {
	sn := e.SN(op.S)
	req := &hydrapb.Uint32SliceDeleteRequest{IslandID: rig.Island(sn), SwampName: sn}
	for _, p := range op.Sl {
		req.KeySlicePairs = append(req.KeySlicePairs, &hydrapb.KeySlicePair{Key: e.KN(p.Key), Values: p.Vals})
	}
	return req
}

func (e *Env) PatchReq(op *Op) *hydrapb.PatchTreasuresRequest {
	sn := e.SN(op.S)
	p := op.Patch
	req := &hydrapb.PatchTreasuresRequest{IslandID: rig.Island(sn), SwampName: sn, CreateIfNotExist: p.Create, Meta: p.Meta.PB(e.Start)}
	switch p.Seed % 3 {
	case 1:
		req.InitialMsgpackOnCreate = mpMap1("f0", mpInt(1))
	case 2:
		req.InitialMsgpackOnCreate = []byte{0x80}
	}
	for _, it := range p.Items {
		tp := &hydrapb.TreasurePatch{Key: e.KN(it.Key), Meta: it.Meta.PB(e.Start)}
		for _, o := range it.Ops {
			tp.Ops = append(tp.Ops, o.PB())
		}
		req.Patches = append(req.Patches, tp)
	}
	return req
}

func (e *Env) GetAll(sn string) (*hydrapb.GetAllResponse, error, *Incident) {
	r, err, _, inc := Call(e, "GetAll", &hydrapb.GetAllRequest{IslandID: rig.Island(sn), SwampName: sn}, e.R.G.GetAll)
	return r, err, inc
}

func (e *Env) DestroySwamp(sn string) (error, *Incident) {
	_, err, _, inc := Call(e, "Destroy", &hydrapb.DestroyRequest{IslandID: rig.Island(sn), SwampName: sn}, e.R.G.Destroy)
	return err, inc
}

// --- increments ---------------------------------------------------------------

func incMetaPB(m *IncMetaSpec, start time.Time) *hydrapb.IncrementRequestMetadata {
	if m == nil {
		return nil
	}
	out := &hydrapb.IncrementRequestMetadata{ExpiredAt: m.EAt.TS(start)}
	if m.CAt {
		t := true
		out.CreatedAt = &t
	}
	if m.UAt {
		t := true
		out.UpdatedAt = &t
	}
	if m.CBy != "" {
		s := m.CBy
		out.CreatedBy = &s
	}
	if m.UBy != "" {
		s := m.UBy
		out.UpdatedBy = &s
	}
	return out
}

func incMetaModel(m *IncMetaSpec, start time.Time) *IncMeta {
	if m == nil {
		return nil
	}
	out := &IncMeta{SetCAt: m.CAt, SetUAt: m.UAt, CBy: m.CBy, UBy: m.UBy}
	if m.EAt != nil {
		out.EAt = m.EAt.Nanos(start)
	}
	return out
}

// IncCallOf resolves an increment op into the model's call form.
func (e *Env) IncCallOf(op *Op) IncCall {
	sp := op.Inc
	k := Kind(sp.Kind)
	c := IncCall{Swamp: e.SN(op.S), Key: e.KN(op.Key), Kind: k, IfNot: incMetaModel(sp.IfNot, e.Start), IfEx: incMetaModel(sp.IfEx, e.Start)}
	mk := func(i int64, u uint64, fb uint64) Value {
		switch {
		case k.IsSigned():
			return Value{K: k, I: i}
		case k.IsUnsigned():
			return Value{K: k, U: u}
		case k == KFloat32:
			return Value{K: k, F: float64(float32(math.Float64frombits(fb)))}
		default:
			return Value{K: k, F: math.Float64frombits(fb)}
		}
	}
	c.By = mk(sp.ByI, sp.ByU, sp.ByF)
	if sp.HasC {
		c.Cond = &IncCond{Op: hydrapb.Relational_Operator(sp.COp % 6), Ref: mk(sp.RefI, sp.RefU, sp.RefF)}
	}
	return c
}

// DoIncrement issues the Increment* RPC matching the call's kind.
func (e *Env) DoIncrement(op *Op, c IncCall) (IncResult, error, *Incident) {
	sn, key := c.Swamp, c.Key
	isl := rig.Island(sn)
	nm, ne := incMetaPB(op.Inc.IfNot, e.Start), incMetaPB(op.Inc.IfEx, e.Start)
	var rop hydrapb.Relational_Operator
	if c.Cond != nil {
		rop = c.Cond.Op
	}
	g := e.R.G
	var res IncResult
	switch c.Kind {
	case KInt8:
		rq := &hydrapb.IncrementInt8Request{IslandID: isl, SwampName: sn, Key: key, IncrementBy: int32(c.By.I), SetIfNotExist: nm, SetIfExist: ne}
		if c.Cond != nil {
			rq.Condition = &hydrapb.IncrementInt8Condition{RelationalOperator: rop, Value: int32(c.Cond.Ref.I)}
		}
		r, err, isNil, inc := Call(e, "IncrementInt8", rq, g.IncrementInt8)
		res = IncResult{Value: Value{K: c.Kind, I: int64(r.GetValue())}, Incremented: r.GetIsIncremented(), Meta: r.GetMetadata(), Nil: isNil}
		return res, err, inc
	case KInt16:
		rq := &hydrapb.IncrementInt16Request{IslandID: isl, SwampName: sn, Key: key, IncrementBy: int32(c.By.I), SetIfNotExist: nm, SetIfExist: ne}
		if c.Cond != nil {
			rq.Condition = &hydrapb.IncrementInt16Condition{RelationalOperator: rop, Value: int32(c.Cond.Ref.I)}
		}
		r, err, isNil, inc := Call(e, "IncrementInt16", rq, g.IncrementInt16)
		res = IncResult{Value: Value{K: c.Kind, I: int64(r.GetValue())}, Incremented: r.GetIsIncremented(), Meta: r.GetMetadata(), Nil: isNil}
		return res, err, inc
	case KInt32:
		rq := &hydrapb.IncrementInt32Request{IslandID: isl, SwampName: sn, Key: key, IncrementBy: int32(c.By.I), SetIfNotExist: nm, SetIfExist: ne}
		if c.Cond != nil {
			rq.Condition = &hydrapb.IncrementInt32Condition{RelationalOperator: rop, Value: int32(c.Cond.Ref.I)}
		}
		r, err, isNil, inc := Call(e, "IncrementInt32", rq, g.IncrementInt32)
		res = IncResult{Value: Value{K: c.Kind, I: int64(r.GetValue())}, Incremented: r.GetIsIncremented(), Meta: r.GetMetadata(), Nil: isNil}
		return res, err, inc
	case KInt64:
		rq := &hydrapb.IncrementInt64Request{IslandID: isl, SwampName: sn, Key: key, IncrementBy: c.By.I, SetIfNotExist: nm, SetIfExist: ne}
		if c.Cond != nil {
			rq.Condition = &hydrapb.IncrementInt64Condition{RelationalOperator: rop, Value: c.Cond.Ref.I}
		}
		r, err, isNil, inc := Call(e, "IncrementInt64", rq, g.IncrementInt64)
		res = IncResult{Value: Value{K: c.Kind, I: r.GetValue()}, Incremented: r.GetIsIncremented(), Meta: r.GetMetadata(), Nil: isNil}
		return res, err, inc
	case KUint8:
		rq := &hydrapb.IncrementUint8Request{IslandID: isl, SwampName: sn, Key: key, IncrementBy: uint32(c.By.U), SetIfNotExist: nm, SetIfExist: ne}
		if c.Cond != nil {
			rq.Condition = &hydrapb.IncrementUint8Condition{RelationalOperator: rop, Value: uint32(c.Cond.Ref.U)}
		}
		r, err, isNil, inc := Call(e, "IncrementUint8", rq, g.IncrementUint8)
		res = IncResult{Value: Value{K: c.Kind, U: uint64(r.GetValue())}, Incremented: r.GetIsIncremented(), Meta: r.GetMetadata(), Nil: isNil}
		return res, err, inc
	case KUint16:
		rq := &hydrapb.IncrementUint16Request{IslandID: isl, SwampName: sn, Key: key, IncrementBy: uint32(c.By.U), SetIfNotExist: nm, SetIfExist: ne}
		if c.Cond != nil {
			rq.Condition = &hydrapb.IncrementUint16Condition{RelationalOperator: rop, Value: uint32(c.Cond.Ref.U)}
		}
		r, err, isNil, inc := Call(e, "IncrementUint16", rq, g.IncrementUint16)
		res = IncResult{Value: Value{K: c.Kind, U: uint64(r.GetValue())}, Incremented: r.GetIsIncremented(), Meta: r.GetMetadata(), Nil: isNil}
		return res, err, inc
	case KUint32:
		rq := &hydrapb.IncrementUint32Request{IslandID: isl, SwampName: sn, Key: key, IncrementBy: uint32(c.By.U), SetIfNotExist: nm, SetIfExist: ne}
		if c.Cond != nil {
			rq.Condition = &hydrapb.IncrementUint32Condition{RelationalOperator: rop, Value: uint32(c.Cond.Ref.U)}
		}
		r, err, isNil, inc := Call(e, "IncrementUint32", rq, g.IncrementUint32)
		res = IncResult{Value: Value{K: c.Kind, U: uint64(r.GetValue())}, Incremented: r.GetIsIncremented(), Meta: r.GetMetadata(), Nil: isNil}
		return res, err, inc
	case KUint64:
		rq := &hydrapb.IncrementUint64Request{IslandID: isl, SwampName: sn, Key: key, IncrementBy: c.By.U, SetIfNotExist: nm, SetIfExist: ne}
		if c.Cond != nil {
			rq.Condition = &hydrapb.IncrementUint64Condition{RelationalOperator: rop, Value: c.Cond.Ref.U}
		}
		r, err, isNil, inc := Call(e, "IncrementUint64", rq, g.IncrementUint64)
		res = IncResult{Value: Value{K: c.Kind, U: r.GetValue()}, Incremented: r.GetIsIncremented(), Meta: r.GetMetadata(), Nil: isNil}
		return res, err, inc
	case KFloat32:
		rq := &hydrapb.IncrementFloat32Request{IslandID: isl, SwampName: sn, Key: key, IncrementBy: float32(c.By.F), SetIfNotExist: nm, SetIfExist: ne}
		if c.Cond != nil {
			rq.Condition = &hydrapb.IncrementFloat32Condition{RelationalOperator: rop, Value: float32(c.Cond.Ref.F)}
		}
		r, err, isNil, inc := Call(e, "IncrementFloat32", rq, g.IncrementFloat32)
		res = IncResult{Value: Value{K: c.Kind, F: float64(r.GetValue())}, Incremented: r.GetIsIncremented(), Meta: r.GetMetadata(), Nil: isNil}
		return res, err, inc
	default:
		rq := &hydrapb.IncrementFloat64Request{IslandID: isl, SwampName: sn, Key: key, IncrementBy: c.By.F, SetIfNotExist: nm, SetIfExist: ne}
		if c.Cond != nil {
			rq.Condition = &hydrapb.IncrementFloat64Condition{RelationalOperator: rop, Value: c.Cond.Ref.F}
		}
		r, err, isNil, inc := Call(e, "IncrementFloat64", rq, g.IncrementFloat64)
		res = IncResult{Value: Value{K: KFloat64, F: r.GetValue()}, Incremented: r.GetIsIncremented(), Meta: r.GetMetadata(), Nil: isNil}
		return res, err, inc
	}
}

// ---------------------------------------------------------------------------
// rig holder: one rig per test function, replaced after a hang

type RigHolder struct {
	mu      sync.Mutex
	opts    rig.Options
	r       *rig.Rig
	old     []string // roots of abandoned rigs
	Poisons int
}

func NewRigHolder(o rig.Options) *RigHolder { return &RigHolder{opts: o} }

func (h *RigHolder) Get() *rig.Rig {
	h.mu.Lock()
	defer h.mu.Unlock()
	if h.r == nil {
		h.r = rig.New(h.opts)
	}
	return h.r
}

// Poison abandons the current rig (a handler is stuck in it and keeps the
// system lock, so a graceful stop can never finish): Stop runs with a short
// timeout in the background, the next Get starts a fresh rig.
func (h *RigHolder) Poison() {
	h.mu.Lock()
	defer h.mu.Unlock()
	if h.r == nil {
		return
	}
	old := h.r
	h.r = nil
	h.Poisons++
	old.DisownRoot()
	h.old = append(h.old, old.Root)
	go old.Stop(1500 * time.Millisecond)
}

// Replace swaps in a rig the caller created itself (restart scenarios).
func (h *RigHolder) Replace(r *rig.Rig) {
	h.mu.Lock()
	defer h.mu.Unlock()
	h.r = r
}

// Restart stops the current rig gracefully (real StopHydra) and starts a new
// one on the same data root, like a server restart. Returns false when the
// stop did not finish in time (the holder is poisoned then).
func (h *RigHolder) Restart(timeout time.Duration) bool {
	h.mu.Lock()
	defer h.mu.Unlock()
	if h.r == nil {
		return true
	}
	old := h.r
	old.DisownRoot()
	rooted := false
	for _, d := range h.old {
		if d == old.Root {
			rooted = true
		}
	}
	if !rooted {
		h.old = append(h.old, old.Root)
	}
	if !old.Stop(timeout) {
		h.r = nil
		h.Poisons++
		return false
	}
	o := h.opts
	o.Root = old.Root
	h.r = rig.New(o)
	return true
}

// Opts returns the options with which rigs are created.
func (h *RigHolder) Opts() rig.Options { return h.opts }

func (h *RigHolder) Close() {
	h.mu.Lock()
	defer h.mu.Unlock()
	if h.r != nil {
		h.r.Cleanup()
		h.r = nil
	}
	for _, d := range h.old {
		os.RemoveAll(d)
	}
}
