package kv

import (
	"fmt"
	"time"

	hydrapb "github.com/hydraide/hydraide/sdk/go/hydraidego/v3/hydraidepbgo"

	"verifharness/internal/pbt"
	"verifharness/internal/rig"
)

// Guards: open (recorded) findings whose trigger the driver leaves out. The
// scenario still contains the op; the driver drops exactly the part that would
// trigger, judged on the model state, so the exclusion is by construction and
// deterministic, and disappears as soon as the finding is no longer open.
type Guards struct {
	// Uint32SliceDelete on an existing key whose slice would become empty, or
	// which holds no slice at all: the handler deletes the treasure while it
	// holds that treasure's guard and never returns.
	SliceDeleteDeadlock bool
	// Set with a void value over an existing typed value leaves the old value.
	VoidKeepsValue bool
	// Set(Uint32Slice) / Uint32SlicePush onto an existing key of another type:
	// acknowledged, value unchanged, a hidden slice is attached.
	SliceOntoOtherType bool
	// Increment* applies the initial value / metadata before it evaluates the
	// condition and returns without saving when the condition is false: a missing
	// key leaves an in-flight treasure (type + metadata) that later calls on that
	// key pick up, a valueless key becomes a typed 0, a typed key gets the
	// SetIfExist metadata in memory only (lost on reload).
	FailedCondLeak bool
	// typed zero values reload as void (C05): no close while one is stored.
	TypedZeroReload bool
	// delete -> re-create -> delete of a key that is on disk, without a flush in
	// between, writes no delete marker: the old record is back after a reload (C05).
	DeleteRecreateDelete bool
}

// Driver executes ops against the rig and the model in lock step.
type Driver struct {
	Env     *Env
	M       *Model
	G       Guards
	Persist []bool // per swamp: persistent (may be closed)
	Skipped map[string]int
	// non-triviality facts
	AutoDestroyed  map[string]bool
	Recreated      bool
	CondFalse      bool
	SliceEmptied   bool
	ShiftedExpired bool
	Closes         int
	OpsRun         int
	// NoAssert: the model is not an oracle; CheckContents re-synchronises it
	// from the observed contents (C05 / C30 use it only to steer the guards).
	NoAssert bool
	// DeleteRecreateDelete (guard, C05 finding): a key whose earlier version is
	// on disk, which was deleted and re-created since the last flush, must not
	// be removed again before the next flush (the old record would resurrect).
	disk map[string]map[string]*diskState
	prev map[string]map[string]bool
}

type diskState struct{ onDisk, deletePending, recreated bool }

func NewDriver(env *Env, persist []bool) *Driver {
	return &Driver{Env: env, M: NewModel(), Persist: persist, Skipped: map[string]int{}, AutoDestroyed: map[string]bool{},
		disk: map[string]map[string]*diskState{}, prev: map[string]map[string]bool{}}
}

func (d *Driver) skip(what string) { d.Skipped[what]++ }

// Step runs one op. Returns the model verdict and an incident (hang/panic).
func (d *Driver) Step(op *Op) (Verdict, *Incident) {
	v, inc := d.step(op)
	if d.NoAssert {
		return ok, inc
	}
	return v, inc
}

func (d *Driver) step(op *Op) (Verdict, *Incident) {
	e, m, g := d.Env, d.M, d.Env.R.G
	d.OpsRun++
	before := map[string]Tri{}
	for _, sn := range e.Swamps {
		before[sn] = m.Exists(sn)
	}
	defer func() {
		for _, sn := range e.Swamps {
			now := m.Exists(sn)
			if before[sn] == Yes && now == No {
				d.AutoDestroyed[sn] = true
			}
			if before[sn] != Yes && now == Yes && d.AutoDestroyed[sn] {
				d.Recreated = true
			}
		}
	}()
	switch op.K {
	case "set":
		eff := *op
		eff.Sets = nil
		for _, p := range op.Sets {
			np := p
			np.KVs = nil
			for _, kv := range p.KVs {
				cur := m.Rec(e.SN(p.S), e.KN(kv.Key))
				writes := cur != nil && p.Overwrite
				nv := ValueOfKV(kv.V.KV("x", e.Start))
				if writes && d.G.VoidKeepsValue && nv.K == KVoid && cur.V.K != KVoid {
					d.skip("set-void-over-typed")
					continue
				}
				if writes && d.G.SliceOntoOtherType && nv.K == KSlice && cur.V.K != KSlice {
					d.skip("set-slice-over-other-type")
					continue
				}
				np.KVs = append(np.KVs, kv)
			}
			if len(np.KVs) > 0 {
				eff.Sets = append(eff.Sets, np)
			}
		}
		if len(eff.Sets) == 0 {
			return ok, nil
		}
		req := e.SetReq(&eff)
		resp, err, isNil, inc := Call(e, "Set", req, g.Set)
		if inc != nil {
			return ok, inc
		}
		if isNil {
			resp = nil
		}
		return m.Set(req, resp, err), nil
	case "get":
		req := e.GetReq(op)
		resp, err, isNil, inc := Call(e, "Get", req, g.Get)
		if inc != nil {
			return ok, inc
		}
		if isNil {
			resp = nil
		}
		return m.Get(req, resp, err), nil
	case "getbykeys":
		sn := e.SN(op.S)
		req := &hydrapb.GetByKeysRequest{IslandID: rig.Island(sn), SwampName: sn, Keys: e.KNs(op.Keys)}
		resp, err, isNil, inc := Call(e, "GetByKeys", req, g.GetByKeys)
		if inc != nil {
			return ok, inc
		}
		if isNil {
			resp = nil
		}
		return m.GetByKeys(req, resp, err), nil
	case "delete":
		op = d.dropBlocked(op)
		if op == nil {
			return ok, nil
		}
		req := e.DeleteReq(op)
		resp, err, isNil, inc := Call(e, "Delete", req, g.Delete)
		if inc != nil {
			return ok, inc
		}
		if isNil {
			resp = nil
		}
		return m.Delete(req, resp, err), nil
	case "count":
		req := e.CountReq(op)
		resp, err, isNil, inc := Call(e, "Count", req, g.Count)
		if inc != nil {
			return ok, inc
		}
		if isNil {
			resp = nil
		}
		return m.CountRPC(req, resp, err), nil
	case "isswamp":
		sn := e.SN(op.S)
		resp, err, isNil, inc := Call(e, "IsSwampExist", &hydrapb.IsSwampExistRequest{IslandID: rig.Island(sn), SwampName: sn}, g.IsSwampExist)
		if inc != nil {
			return ok, inc
		}
		if isNil {
			resp = nil
		}
		return m.IsSwampExist(sn, resp, err), nil
	case "iskey":
		sn := e.SN(op.S)
		resp, err, isNil, inc := Call(e, "IsKeyExist", &hydrapb.IsKeyExistRequest{IslandID: rig.Island(sn), SwampName: sn, Key: e.KN(op.Key)}, g.IsKeyExist)
		if inc != nil {
			return ok, inc
		}
		if isNil {
			resp = nil
		}
		return m.IsKeyExist(sn, e.KN(op.Key), resp, err), nil
	case "arekeys":
		sn := e.SN(op.S)
		req := &hydrapb.AreKeysExistRequest{IslandID: rig.Island(sn), SwampName: sn, Keys: e.KNs(op.Keys)}
		resp, err, isNil, inc := Call(e, "AreKeysExist", req, g.AreKeysExist)
		if inc != nil {
			return ok, inc
		}
		if isNil {
			resp = nil
		}
		return m.AreKeysExist(req, resp, err), nil
	case "inc":
		c := e.IncCallOf(op)
		cur := m.Rec(c.Swamp, c.Key)
		holds := true
		if cur == nil || cur.V.K == KVoid {
			holds = condHolds(c.Cond, Value{K: c.Kind})
		} else if cur.V.K == c.Kind {
			holds = condHolds(c.Cond, cur.V)
		}
		if d.G.FailedCondLeak && !holds && (cur == nil || cur.V.K == KVoid || (cur.V.K == c.Kind && op.Inc.IfEx != nil)) {
			// the handler applies the initial value / metadata before it evaluates the
			// condition and returns without saving: missing key -> in-flight leftover,
			// valueless key -> typed 0 in memory, typed key -> metadata in memory only
			d.skip("inc-false-condition-that-mutates")
			return ok, nil
		}
		c.T0 = time.Now().UnixNano()
		res, err, inc := e.DoIncrement(op, c)
		c.T1 = time.Now().UnixNano()
		if inc != nil {
			return ok, inc
		}
		if !holds && err == nil {
			d.CondFalse = true
		}
		return m.Increment(c, res, err), nil
	case "push":
		eff := *op
		eff.Sl = nil
		for _, p := range op.Sl {
			cur := m.Rec(e.SN(op.S), e.KN(p.Key))
			if d.G.SliceOntoOtherType && cur != nil && cur.V.K != KSlice {
				d.skip("push-onto-other-type")
				continue
			}
			eff.Sl = append(eff.Sl, p)
		}
		if len(eff.Sl) == 0 {
			return ok, nil
		}
		req := e.PushReq(&eff)
		_, err, _, inc := Call(e, "Uint32SlicePush", req, g.Uint32SlicePush)
		if inc != nil {
			return ok, inc
		}
		return m.SlicePush(req, err), nil
	case "sdel":
		eff := *op
		eff.Sl = nil
		for _, p := range op.Sl {
			cur := m.Rec(e.SN(op.S), e.KN(p.Key))
			empties := false
			if cur != nil && cur.V.K == KSlice {
				left := 0
				for _, v := range cur.V.L {
					hit := false
					for _, x := range p.Vals {
						if x == v {
							hit = true
						}
					}
					if !hit {
						left++
					}
				}
				empties = left == 0
			}
			if d.G.SliceDeleteDeadlock && cur != nil && (cur.V.K != KSlice || empties) {
				d.skip("slice-delete-emptying-or-non-slice")
				continue
			}
			if empties && d.removalBlocked(e.SN(op.S), e.KN(p.Key)) {
				d.skip("removal-of-deleted-and-recreated-key")
				continue
			}
			if empties {
				d.SliceEmptied = true
			}
			eff.Sl = append(eff.Sl, p)
		}
		if len(eff.Sl) == 0 {
			return ok, nil
		}
		req := e.SliceDeleteReq(&eff)
		_, err, _, inc := Call(e, "Uint32SliceDelete", req, g.Uint32SliceDelete)
		if inc != nil {
			return ok, inc
		}
		return m.SliceDelete(req, err), nil
	case "ssize":
		sn := e.SN(op.S)
		resp, err, isNil, inc := Call(e, "Uint32SliceSize", &hydrapb.Uint32SliceSizeRequest{IslandID: rig.Island(sn), SwampName: sn, Key: e.KN(op.Key)}, g.Uint32SliceSize)
		if inc != nil {
			return ok, inc
		}
		if isNil {
			resp = nil
		}
		return m.SliceSize(sn, e.KN(op.Key), resp, err), nil
	case "sexist":
		sn := e.SN(op.S)
		resp, err, isNil, inc := Call(e, "Uint32SliceIsValueExist", &hydrapb.Uint32SliceIsValueExistRequest{IslandID: rig.Island(sn), SwampName: sn, Key: e.KN(op.Key), Value: op.U32}, g.Uint32SliceIsValueExist)
		if inc != nil {
			return ok, inc
		}
		if isNil {
			resp = nil
		}
		return m.SliceIsValueExist(sn, e.KN(op.Key), op.U32, resp, err), nil
	case "shift":
		sn := e.SN(op.S)
		var keep []int
		for _, k := range op.Keys {
			if d.removalBlocked(sn, e.KN(k)) {
				d.skip("removal-of-deleted-and-recreated-key")
				continue
			}
			keep = append(keep, k)
		}
		if len(keep) == 0 {
			return ok, nil
		}
		op = &Op{K: "shift", S: op.S, Keys: keep}
		req := &hydrapb.ShiftByKeysRequest{IslandID: rig.Island(sn), SwampName: sn, Keys: e.KNs(op.Keys)}
		resp, err, isNil, inc := Call(e, "ShiftByKeys", req, g.ShiftByKeys)
		if inc != nil {
			return ok, inc
		}
		if isNil {
			resp = nil
		}
		return m.ShiftByKeys(req, resp, err), nil
	case "shiftexp":
		sn := e.SN(op.S)
		if d.G.DeleteRecreateDelete {
			for k := range m.sw(sn).Keys {
				if d.removalBlocked(sn, k) {
					d.skip("removal-of-deleted-and-recreated-key")
					return ok, nil
				}
			}
		}
		t0 := time.Now().UnixNano()
		resp, err, isNil, inc := Call(e, "ShiftExpiredTreasures", &hydrapb.ShiftExpiredTreasuresRequest{IslandID: rig.Island(sn), SwampName: sn, HowMany: int32(op.N)}, g.ShiftExpiredTreasures)
		t1 := time.Now().UnixNano()
		if inc != nil {
			return ok, inc
		}
		if isNil {
			resp = nil
		}
		if len(resp.GetTreasures()) > 0 {
			d.ShiftedExpired = true
		}
		return m.ShiftExpired(sn, op.N, resp, err, t0, t1), nil
	case "patch":
		req := e.PatchReq(op)
		_, _, _, inc := Call(e, "PatchTreasures", req, g.PatchTreasures)
		return ok, inc
	case "destroy":
		sn := e.SN(op.S)
		err, inc := e.DestroySwamp(sn)
		if inc != nil {
			return ok, inc
		}
		return m.Destroy(sn, err), nil
	case "close":
		idx := op.S % len(e.Swamps)
		if !d.Persist[idx] {
			return ok, nil
		}
		sn := e.SN(op.S)
		if d.G.TypedZeroReload {
			for k := range m.sw(sn).Keys {
				if r := m.Rec(sn, k); r != nil && r.V.IsTypedZero() {
					d.skip("close-with-typed-zero-value")
					return ok, nil
				}
			}
		}
		done := make(chan bool, 1)
		go func() { done <- e.R.CloseSwamp(sn) }()
		select {
		case closed := <-done:
			if closed {
				d.Closes++
				d.flushed(sn)
			}
		case <-time.After(e.wd()):
			return ok, &Incident{Kind: "hang", Msg: fmt.Sprintf("closing swamp %s did not finish within %v", sn, e.wd())}
		}
		return ok, nil
	}
	return bad("harness", "unknown op kind %q", op.K), nil
}

func (e *Env) wd() time.Duration {
	if e.Watchdog == 0 {
		return pbt.Bound(10 * time.Second)
	}
	return pbt.Bound(e.Watchdog)
}

// CheckContents compares the full contents and the existence flag of every
// swamp with the model (and collapses open alternatives).
func (d *Driver) CheckContents() (Verdict, *Incident) {
	for _, sn := range d.Env.Swamps {
		resp, err, inc := d.Env.GetAll(sn)
		if inc != nil {
			return ok, inc
		}
		if d.NoAssert {
			d.M.SyncFrom(sn, resp, err)
			continue
		}
		if v := d.M.ObserveAll(sn, resp, err); v.Bad() {
			return v, nil
		}
		er, eerr, isNil, inc := Call(d.Env, "IsSwampExist", &hydrapb.IsSwampExistRequest{IslandID: rig.Island(sn), SwampName: sn}, d.Env.R.G.IsSwampExist)
		if inc != nil {
			return ok, inc
		}
		if isNil {
			er = nil
		}
		if v := d.M.IsSwampExist(sn, er, eerr); v.Bad() {
			return v, nil
		}
	}
	d.trackDisk()
	return ok, nil
}

// Cleanup destroys the case's swamps (bounded memory across thousands of cases).
func (d *Driver) Cleanup() {
	for _, sn := range d.Env.Swamps {
		if _, inc := d.Env.DestroySwamp(sn); inc != nil {
			return
		}
	}
}

func (d *Driver) ds(sn, key string) *diskState {
	if d.disk[sn] == nil {
		d.disk[sn] = map[string]*diskState{}
	}
	st := d.disk[sn][key]
	if st == nil {
		st = &diskState{}
		d.disk[sn][key] = st
	}
	return st
}

// removalBlocked: removing this key now would trigger the open
// delete/re-create/delete finding.
func (d *Driver) removalBlocked(sn, key string) bool {
	return d.G.DeleteRecreateDelete && d.ds(sn, key).recreated
}

// trackDisk updates the on-disk bookkeeping from the (resolved) model state.
func (d *Driver) trackDisk() {
	for i, sn := range d.Env.Swamps {
		if i < len(d.Persist) && !d.Persist[i] {
			continue // in-memory swamp: nothing is ever on disk
		}
		cur := map[string]bool{}
		for k := range d.M.sw(sn).Keys {
			cur[k] = true
		}
		if d.M.Exists(sn) == No {
			// swamp (and its file) gone
			d.disk[sn] = map[string]*diskState{}
		} else {
			for k := range d.prev[sn] {
				if !cur[k] {
					st := d.ds(sn, k)
					if st.onDisk {
						st.deletePending = true
					}
					st.recreated = false
				}
			}
			for k := range cur {
				st := d.ds(sn, k)
				if !d.prev[sn][k] && st.deletePending {
					st.recreated = true
				}
				// the periodic writer (1 s tick) may flush at any moment: every key that
				// exists at the end of a step is treated as possibly on disk
				st.onDisk = true
			}
		}
		d.prev[sn] = cur
	}
}

// flushed: everything of this swamp was written (close): present keys are on
// disk, absent ones are not, nothing is pending.
func (d *Driver) flushed(sn string) {
	d.disk[sn] = map[string]*diskState{}
	for k := range d.M.sw(sn).Keys {
		d.ds(sn, k).onDisk = true
	}
}

// dropBlocked filters the keys of a delete op through removalBlocked.
func (d *Driver) dropBlocked(op *Op) *Op {
	out := &Op{K: op.K}
	for _, p := range op.Parts {
		np := KeysPart{S: p.S}
		for _, k := range p.Keys {
			if d.removalBlocked(d.Env.SN(p.S), d.Env.KN(k)) {
				d.skip("removal-of-deleted-and-recreated-key")
				continue
			}
			np.Keys = append(np.Keys, k)
		}
		if len(np.Keys) > 0 {
			out.Parts = append(out.Parts, np)
		}
	}
	if len(out.Parts) == 0 {
		return nil
	}
	return out
}
