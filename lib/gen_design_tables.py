#!/usr/bin/env python3
"""Rewrites the generated region of DESIGN.md (between the BEGIN/END GENERATED markers) from KNOWN_FINDINGS.txt and seeded/*/meta.json."""
import json, glob, os, re
ROOT = os.path.dirname(os.path.dirname(os.path.abspath(__file__)))
fixed, known = [], []
for ln in open(ROOT + '/KNOWN_FINDINGS.txt'):
    ln = ln.strip()
    if ln.startswith('fixed:'):
        m = re.match(r'fixed: property=(\S+) (\S+) (.*)', ln)
        if m: fixed.append(m.groups())
    elif ln.startswith('known:'):
        m = re.match(r'known: property=(\S+) witness=(\S+) :: (.*)', ln)
        if m: known.append(m.groups())
def short(t, n=230):
    t = t.replace('|', '\\|')
    return t if len(t) <= n else t[:n].rsplit(' ', 1)[0] + ' …'
out = []
out.append(f"#### Repaired by a `fix:` commit in /repo ({len(fixed)} entries; several entries can share one commit/root cause)\n")
out.append("| property | commit | what failed |\n|---|---|---|")
for p, c, t in sorted(fixed): out.append(f"| {p} | {c} | {short(t)} |")
out.append(f"\n#### Recorded, not repaired ({len(known)}; each has a witness facet that prints KNOWN-FINDING while it reproduces, and the main facet excludes exactly its trigger)\n")
out.append("| property | witness | what fails | why not repaired |\n|---|---|---|---|")
WHY = {
 'zstd-header-flag-unprotected': 'inherent to the zstd frame format as used: the frame header descriptor is outside the content checksum and the decoder cannot be told to require one; storing the content size (one encoder option) only raises the minimum damage from two bits to three',
 'slash-in-name-aliases-swamps': 'needs a naming decision: escaping "/" (e.g. %2F) collides with literal "%2F" unless "%" is escaped too, which would rename swamps of existing indexes',
 'time-attr-change-after-build': 'repair = re-sorting every time/value index on each attribute change (142-line patch over hot paths, kept in .work/proposed-fixes/C07-beacon-reposition.diff): not small',
 'value-change-after-build': 'same repair as above', 'value-index-insert-not-int64': 'same repair as above',
 'from-limit-stage': 'design-level: the two routes apply From/Limit at different stages',
 'float-int-equality': 'scan-route comparison helpers truncate; changing them alters documented scan semantics for existing users',
 'time-field-cross-kind': 'design-level canonicalisation difference', 'msgpack-without-magic': "a fix breaks 12 of the repository's own bucket tests, which use unprefixed bodies",
 'snappy-no-integrity': 'inherent to the Snappy block format (the storage engine adds its own CRC32, see C04)',
 'lz4-truncation-clean-eof': 'behaviour of pierrec/lz4 v2.6.1 frame reader; no small local repair',
 'failed-condition-increment-mutates-unsaved': 'repair touches ten near-identical Increment functions',
 'uint32slice-onto-other-type-hidden': 'Set and Push need different behaviour; API-level decision',
 'write-after-summon-into-dead-instance': 'design-level: window between SummonSwamp and BeginVigil in every handler',
 'auto-destroy-after-drained-insert': 'design-level: auto-destroy protocol', 'idle-close-stale-interaction-time': 'design-level: idle listener protocol',
 'shift-removal-not-atomic': 'Shift* would have to remove the record from every index under the guard it clones under',
 'bucket-build-vs-guard-holder-deadlock': 'lock-order inversion in the first bucket build; the snapshot cannot skip busy records',
 'delete-resurrects-queued-writer': 'a fix would touch every Increment*/Patch/Set path', 'shift-not-atomic': 'medium-size repair of ShiftByKeys',
 'treasure-setters-vs-getters': 'one root cause (setters under the guard only, getters under RLock only) across ~50 accessor pairs',
 'get-sees-record-mid-mutation': 'reads never take the record guard; design-level',
 'old-treasure-equals-new': 'SaveFunction passes the object just modified in place; needs a pre-image copy on every save',
 'delete-not-atomic-per-key': 'guard is per treasure object, delete paths do not re-check under it; medium-size repair',
}
for p, w, t in sorted(known): out.append(f"| {p} | {w} | {short(t)} | {WHY.get(w, 'not small / design-level')} |")
out.append("\n### 0.2 Seeded changes (independent sub-agents, given only the property record and a scratch worktree) and which checks catch them\n")
out.append("Every change below compiles, passes hydraide's existing tests of the touched packages, and was confirmed with its own demonstration in a scratch worktree (`seeded/<ID>/confirm.log`). The checks were run against it through the build overlay (`lib/mutrun.sh`).\n")
out.append("| seed | change | needs | caught by | led to |\n|---|---|---|---|---|")
metas = []
for f in sorted(glob.glob(ROOT + '/seeded/*/meta.json')):
    m = json.load(open(f))
    m['_name'] = os.path.basename(os.path.dirname(f))
    metas.append(m)
missed = 0
for m in metas:
    note = m.get('note', '')
    first_miss = 'MISSED' in m.get('detected_by', '') or 'strengthened' in note or 'strengthened' in m.get('checks_run', '') or 'silent at first' in m.get('checks_run', '')
    missed += bool(first_miss)
    led = short(note, 200) if note else ''
    out.append(f"| {m['_name']} | {short(m['change'],200)} | {short(m['needs_to_manifest'],200)} | {short(m['detected_by'],260)} | {led} |")
out.append(f"\n{len(metas)} seeded changes in four rounds (round 2 was told the round-1 change and asked for another mechanism and another kind of trigger; round 3 was told both and given a preferred kind of trigger; round 4 went to the ten properties whose checks had caught everything so far); "
           f"{missed} of them were not reported by the checks as they stood and led to a stronger check (or, twice, to a repair of the machinery itself); all are reported now.\n")
import sys
sys.path.insert(0, ROOT + '/lib')
from registry import CHECKS
out.append("\n### 0.3 As built: where each property is decided\n")
out.append("| property | package(s) / test regex | overlay | shards q/t | deciding method |\n|---|---|---|---|---|")
for pid in sorted(CHECKS):
    c = CHECKS[pid]
    units = c.get('units') or [c]
    where = '; '.join(f"harness/{u['pkg']} `{u['run']}`" for u in units)
    ov = ', '.join(sorted({u.get('overlay') or ('race build' if u.get('race') else '-') for u in units}))
    sh = '; '.join(f"{u.get('shards',{}).get('quick',1)}/{u.get('shards',{}).get('thorough',1)}" for u in units)
    out.append(f"| {pid} | {where} | {ov} | {sh} | {short(c['technique'], 300)} |")
p = ROOT + '/DESIGN.md'
s = open(p).read()
B, E = '<!-- BEGIN GENERATED -->', '<!-- END GENERATED -->'
block = B + '\n' + '\n'.join(out) + '\n' + E
if B in s:
    s = s[:s.index(B)] + block + s[s.index(E) + len(E):]
else:
    marker = '## 1. Common machinery'
    s = s.replace(marker, block + '\n\n' + marker, 1)
open(p, 'w').write(s)
print('fixed', len(fixed), 'known', len(known))
