#!/bin/bash
# Runs hydraide's own test suite on /repo HEAD in a scratch worktree (so that test residue never lands in /repo)
# and compares the result with the stable_pass list of /root/.vp/BASELINE.json. Prints the stable tests that did not pass.
set -u
wt=$(mktemp -d /tmp/wt-baseline-XXXX)
git -C /repo worktree add --detach "$wt" HEAD -q || exit 2
trap 'git -C /repo worktree remove --force "$wt" >/dev/null 2>&1; rm -rf "$wt"' EXIT
export GOPROXY=off
out="$wt/../$(basename $wt).gotest.json"
( cd "$wt" && go test -json -vet=off -count=1 -timeout 25m ./... ) > "$out" 2>/dev/null
( cd "$wt/sdk/go/hydraidego" && go test -json -vet=off -count=1 -timeout 25m ./... ) >> "$out" 2>/dev/null
python3 - "$out" <<'PY'
import json, sys
passed, failed = set(), set()
for line in open(sys.argv[1], errors='replace'):
    line = line.strip()
    if not line.startswith('{'): continue
    try: ev = json.loads(line)
    except Exception: continue
    a, pkg, t = ev.get('Action'), ev.get('Package', ''), ev.get('Test')
    if t is None or a not in ('pass', 'fail'): continue
    (passed if a == 'pass' else failed).add(pkg + '::' + t)
passed -= failed
b = json.load(open('/root/.vp/BASELINE.json'))
stable = set(b['stable_pass'])
missing = sorted(stable - passed)
print(f'stable_pass={len(stable)} passed_now={len(stable & passed)} not_passing={len(missing)}')
for m in missing[:40]:
    print('  NOT PASSING:', m, '(failed)' if m in failed else '(not run)')
sys.exit(1 if missing else 0)
PY
rc=$?
rm -f "$out"
exit $rc
