#!/bin/bash
# usage: lib/runall.sh [quick|thorough]  — runs every registered check once, prints one summary line each (+ VIOLATION/INCONCLUSIVE lines)
cd "$(dirname "$0")/.."
tier=${1:-quick}
ids=$(python3 -c "
import sys; sys.path.insert(0,'lib')
from registry import CHECKS
print(' '.join(sorted(CHECKS)))")
rc=0
for id in $ids; do
  out=$(./check $id --tier $tier 2>&1); r=$?
  echo "$out" | grep -E "^property=|^VIOLATION|^INCONCLUSIVE|^  facet=" | cut -c1-260
  echo "   -> exit $r"
  [ $r -ne 0 ] && rc=1
done
exit $rc
