#!/usr/bin/env python3
"""usage: lib/kf_fix.py <ID> <witness> <commit>  — turns a `known:` line into a `fixed:` line (manual maintenance tool)."""
import sys, re
pid, w, commit = sys.argv[1:4]
p = '/verif/KNOWN_FINDINGS.txt'
L = open(p).read().split('\n')
n = 0
for i, l in enumerate(L):
    if l.startswith(f'known: property={pid} witness={w} '):
        txt = l.split('::', 1)[1].strip() if '::' in l else l
        L[i] = f'fixed: property={pid} {commit} {txt} (former witness {w})'
        n += 1
open(p, 'w').write('\n'.join(L))
print('changed', n)
