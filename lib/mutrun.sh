#!/bin/sh
# usage: lib/mutrun.sh <patch.diff> <ID> [<ID>...]
# Runs checks against a mutant WITHOUT touching /repo: the files named in the patch are copied to a scratch
# directory, patched there and substituted through the build overlay (VERIF_MUT_DIR).
set -e
patchf=$(readlink -f "$1"); shift
mut=$(mktemp -d /dev/shm/mut-XXXXXX)
trap 'rm -rf "$mut"' EXIT
for f in $(grep -E '^\+\+\+ ' "$patchf" | sed -E 's#^\+\+\+ (b/)?##; s#\t.*##' | grep -v '^/dev/null'); do
  mkdir -p "$mut/$(dirname "$f")"
  [ -f "/repo/$f" ] && cp "/repo/$f" "$mut/$f"
done
(cd "$mut" && patch -s -p1 < "$patchf")
cd "$(dirname "$0")/.."
rc=0
for id in "$@"; do
  VERIF_MUT_DIR="$mut" ./check "$id" || rc=$?
done
exit $rc
