#!/bin/bash
# usage: lib/soak.sh <parallel> <seed> [<seed>...] — runs every registered check (quick tier) at each VERIF_SEED, <parallel> checks at a time,
# to look for alarms on the unchanged tree under load. Prints every run that did not exit 0. NOTE: overwrites evidence/ with the last run's files.
cd "$(dirname "$0")/.."
par=$1; shift
ids=$(python3 -c "
import sys; sys.path.insert(0,'lib')
from registry import CHECKS
print(' '.join(sorted(CHECKS)))")
mkdir -p .work/soak
for seed in "$@"; do
  echo "== seed $seed $(date -u +%H:%M:%S)"
  for id in $ids; do echo $id; done | xargs -P $par -I{} sh -c "VERIF_SEED=$seed ./check {} > .work/soak/{}-s$seed.log 2>&1; echo \$? > .work/soak/{}-s$seed.rc"
  for id in $ids; do
    rc=$(cat .work/soak/$id-s$seed.rc)
    if [ "$rc" != "0" ]; then echo "NONZERO seed=$seed $id rc=$rc"; grep -E "^VIOLATION|^INCONCLUSIVE|^  facet=" .work/soak/$id-s$seed.log | cut -c1-400; fi
  done
done
echo "== done $(date -u +%H:%M:%S)"
