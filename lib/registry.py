"""Per-property configuration of the driver (./check) and source of MANIFEST.json (lib/gen_manifest.py)."""

CHECKS = {
    "C01": {
        "pkg": "storage", "run": "^TestC01", "level": "exploration",
        "shards": {"quick": 1, "thorough": 16},
        "technique": "stateful property-based testing (rapid) of the v2 writer/reader against a map model; round-trip oracle",
        "level_text": "Generated write/delete/flush/sync/reopen histories (block sizes 1B..1MiB, binary and 65535-byte keys, "
                      "payloads to 2MiB, V3 and hand-built legacy-V2 starting files) are replayed through the real FileWriter and "
                      "read back with the real FileReader; the index must equal a last-writer-wins map exactly after every close. "
                      "Exploration only: no claim beyond the generated histories.",
        "level_note": "Trusts the harness map model and the OS file system (/dev/shm). Payloads >= 4GiB are out of reach.",
        "design_ref": "DESIGN.md §2 C01",
        "assumptions": ["model: last-writer-wins map with delete-removes-key", "a write that returns an error leaves the model unchanged"],
    },
}
