"""Per-property configuration of the driver (./check) and source of MANIFEST.json (lib/gen_manifest.py)."""

CHECKS = {
    "C01": {
        "pkg": "storage", "run": "^TestC01", "level": "exploration",
        "shards": {"quick": 1, "thorough": 16},
        "technique": "stateful property-based testing (rapid) of the v2 writer/reader against a map model; round-trip oracle",
        "level_text": "Generated write/delete/flush/sync/reopen histories (block sizes 1B..1MiB, binary and 65535-byte keys, "
                      "payloads to 2MiB, V3 and hand-built legacy-V2 starting files) are replayed through the real FileWriter and "
                      "read back with the real FileReader; the index must equal a last-writer-wins map exactly after every close. "
                      "Exploration only: no claim beyond the generated histories.",
        "level_note": "Trusts the harness map model and the OS file system (/dev/shm). Payloads >= 4GiB are out of reach.",
        "design_ref": "DESIGN.md §2 C01",
        "assumptions": ["model: last-writer-wins map with delete-removes-key", "a write that returns an error leaves the model unchanged"],
    },
    "C02": {
        "pkg": "storage", "run": "^TestC02", "level": "fault_enumeration", "overlay": "vfs", "tags": ["verifvfs"],
        "shards": {"quick": 4, "thorough": 16},
        "technique": "rapid-generated write histories + exhaustive crash-point enumeration over the recorded file-operation log (torn writes, unsynced-suffix loss); recovery compared with flush-boundary states from an independent decoder",
        "level_text": "For each generated history the engine's real file operations are recorded (AST-instrumented os calls); every prefix of that log, "
                      "torn variants of each write and the loss of everything after the last completed fsync are materialised as crash images and loaded "
                      "through the real recovery path; the result must be the state at a flush boundary no older than the last acknowledged Sync/Close, "
                      "and writes made after recovery must survive a further close+reload. Enumeration is exhaustive per history under the prefix model.",
        "level_note": "Persistence model: prefix-ordered operations with a torn last write; no reordering between fsyncs, no directory-entry loss. "
                      "Trusts the vfs shim's op log (pass-through wrapper generated from the tree under test) and the independent block decoder.",
        "assumptions": ["prefix persistence model with torn last write", "an acknowledged Sync/Close makes all earlier writes durable"],
    },
    "C03": {
        "units": [
            {"pkg": "storage", "run": "^TestC03", "overlay": "vfs", "tags": ["verifvfs"], "shards": {"quick": 4, "thorough": 16}},
            {"pkg": "conc", "run": "^TestC03RPC", "shards": {"quick": 1, "thorough": 8}},
        ],
        "level": "fault_enumeration",
        "technique": "metamorphic property-based test (compaction = identity on the live state) over generated histories x entry points x leftover temp files, plus exhaustive crash-point enumeration over the compaction's recorded file operations",
        "level_text": "Generated histories crossing the engine's compaction thresholds are compacted through every entry point (inline on write/close, load self-heal, "
                      "ForceCompaction, v2.Compactor methods, CompactFromIndex, the CLI's compactSwamp) with generated leftover temp files; live state and swamp name "
                      "must be identical before and after, later writes must reload. Every prefix of the compaction's own file-operation log, torn "
                      "temp writes and 'rename persisted before the temp file's unsynced data' are materialised and must reload to exactly the pre-compaction state. "
                      "A fault facet re-runs the entry point with injected I/O faults (1-3 drawn, one-shot or persistent; always: the last write, the last fsync, and the rename failing once "
                      "and failing persistently so that a retry fails too): afterwards the swamp must hold exactly the pre-compaction state and accept writes.",
        "level_note": "Prefix persistence model plus the rename-before-fsync hazard; no directory-entry loss. A second unit drives the CompactSwamp RPC and ordinary API traffic "
                      "through the in-process gateway (no crash facet there). Trusts the vfs shim op log and the harness state model.",
        "assumptions": ["compaction is the identity on (live key -> value, swamp name)", "prefix persistence + rename-before-fsync hazard"],
    },
    "C25": {
        "pkg": "storage", "run": "^TestC25", "level": "fault_enumeration", "overlay": "vfs", "tags": ["verifvfs"],
        "shards": {"quick": 4, "thorough": 16},
        "technique": "rapid-generated write histories with injected file-operation faults (error / short write; single, double and persistent; aimed at the inline compaction window; exhaustive single faults per history in thorough) against an acknowledged-value oracle",
        "level_text": "The storage engine's real file operations are intercepted (AST-instrumented os calls); fault plans drawn from a fault-free dry run make the n-th "
                      "operation fail or a write store only a prefix. After the history and a reload every key must hold its acknowledged value, or for unacknowledged "
                      "writes the previous acknowledged value or an attempted one; later writes must again be stored and reload, and a server-constructed file must still carry its swamp name. "
                      "A quarter of the histories are long enough (>= 100 entries, mostly dead) to make the chronicler compact INLINE in the middle of the session; every faultable operation from the writer's "
                      "close before the compaction to the re-created writer after the rename gets a fault of its own. Thorough tier enumerates every single fault at every faultable operation for a third of the histories.",
        "level_note": "Faults are one-shot or persistent for the next 1-3 operations of the same kind (the only way into retry paths), then the fault clears. chronicler.Write reports failures only through the log, so writes handed over between a fault and the "
                      "next successful Sync/Close are treated as unacknowledged. Trusts the vfs shim and the harness acknowledgement model.",
        "assumptions": ["a Sync/Close that returns nil acknowledges every entry handed over before it, unless a fault fired in between"],
    },
    "C20": {
        "pkg": "addr", "run": "^TestC20", "level": "exploration",
        "shards": {"quick": 1, "thorough": 16},
        "technique": "rapid property-based test of the pure addressing functions; differential SDK vs server, metamorphic root/island, batch injectivity",
        "level_text": "Generated batches of name triples (alnum, arbitrary UTF-8, re-split, permuted and counter families up to 10^4 names) across island counts and the "
                      "depth x folders-per-level grid are run through the real SDK and server name packages. Island equality and range, object and Load determinism, "
                      "no panic, containment under root/island, level count, batch injectivity and root/island prefix metamorphism are asserted. Exploration only.",
        "level_note": "Does not exercise the client routing table (Connect needs an mTLS server). xxhash64 collisions are assumed absent within a batch. "
                      "The level-count assertion is conditional on the unpadded hash having enough digits.",
        "assumptions": ["one N and one (root, island, depth, per-level) per name object, because results are cached per object",
                        "canonical names have non-empty parts without '/' and are not '*'"],
    },
    "C21": {
        "pkg": "addr", "run": "^TestC21", "level": "exploration",
        "shards": {"quick": 1, "thorough": 16},
        "technique": "stateful rapid PBT of settings.RegisterPattern/DeregisterPattern/GetBySwampName/New against a specificity partial-order model, with order and restart metamorphism",
        "level_text": "Generated histories of registrations, re-registrations, deregistrations and restarts over a tiny alphabet are applied to the real settings package on a "
                      "tmpfs root. After every step all 18 concrete names are resolved 64x and judged against the model (determinism, most specific match wins, last "
                      "registration's values). The final set is re-registered in other orders on fresh roots. Exploration only.",
        "level_note": "Values are restricted to the gateway's domain (>= 1); ChroniclerV2 and sanctuary wildcards are excluded. Restart means settings.New on the same directory in one process.",
        "assumptions": ["'*' in the realm or swamp position matches any value and the sanctuary is literal", "specificity is the part-wise literal-over-wildcard partial order"],
    },
    "C07": {
        "pkg": "query", "run": "^TestC07", "level": "exploration",
        "shards": {"quick": 1, "thorough": 16},
        "technique": "stateful property-based testing (rapid) through the in-process gateway with a model-based ordered-page oracle (tie classes)",
        "level_text": "Random single-swamp histories through the in-process gateway (Set/Increment/Patch/Delete/reload) with indexes built lazily mid-history. Every "
                      "GetByIndex/GetByIndexStream page (all 15 index types, both orders, offsets, limits, time windows) is compared, as a sequence of tie classes, against a "
                      "sorted/windowed/paged reference model.",
        "level_note": "Value type homogeneous per swamp (documented precondition); time windows only with time indexes; no typed zero values (C05 finding); one client, no concurrency.",
        "assumptions": ["Limit 0 means all; window is [from, to)", "the server never stamps timestamps on Set"],
    },
    "C08": {
        "units": [
            {"pkg": "query", "run": "^TestC08", "shards": {"quick": 1, "thorough": 16}},
            # mutations overlapping the FIRST build of a field index (vsched plan holds the builder inside BuildEquality); judged at quiescence only
            {"pkg": "query", "run": "^TestC08(BuildRace|WitnessIndexBuildRace)", "overlay": "vsched", "tags": ["verifvsched"], "shards": {"quick": 4, "thorough": 16}},
        ],
        "level": "exploration",
        "technique": "differential/metamorphic property-based testing (route forcing via an OR{SubGroups:[G]} wrapper, checked with gateway.PlanFilter) plus an independent three-valued evaluator",
        "level_text": "Random contents / filter-tree / request / mutation tuples: the same stream request is answered through the bucket route and the forced scan route and "
                      "the two streams must be equal up to ties, including labels and treasures; both must match an independent evaluator of the documented canonical "
                      "equality whenever the documents decide every record. Open route divergences are excluded from the main generator and kept as witness facets. "
                      "A second unit (schedule-perturbation overlay) lets 1-3 writers delete/replace/patch/insert records while the first query on a field builds its index, "
                      "the builder being held inside the build by a generated plan; after quiescence both routes and the evaluator must agree on generated queries on that field.",
        "level_note": "The wrapper OR{SubGroups:[G]} is assumed semantically identical to G. Time-valued body fields and IS_EMPTY on non-msgpack bodies are left undecided by the evaluator; "
                      "cases whose page cuts a tie class are skipped (~6%). GetByIndexStreamFromMany and value indexes are not covered.",
        "assumptions": ["From/Limit are pre-filter index positions and MaxResults is post-filter (proto/docs)"],
    },
    "C17": {
        "units": [
            {"pkg": "conc", "run": "^TestC17", "overlay": "vsched", "tags": ["verifvsched"], "shards": {"quick": 12, "thorough": 16}},
            # swamp/hydra level: lifecycle actions under injected file-operation faults (termination oracle with a stuck-close witness)
            {"pkg": "life", "run": "^TestC17CloseFault", "overlay": "vfs", "tags": ["verifvfs"], "shards": {"quick": 8, "thorough": 16},
             "timeout": {"quick": 1200, "thorough": 3000}},
        ],
        "level": "exploration",
        "technique": "property-based schedule perturbation (rapid-drawn pause/sleep/yield plans at AST-instrumented synchronisation sites) with a deadlock-witness oracle (goroutine provably parked)",
        "level_text": "Operation goroutines (BeginVigil..CeaseVigil) and waiters (WaitForActiveVigilsClosed) run on the real vigil while a generated plan delays goroutines at "
                      "the instrumented lock/cond/atomic sites; once every operation has ended no further broadcast can happen, so a waiter still parked in sync.Cond.Wait is "
                      "a lost wake-up. Detection is probabilistic (schedules are perturbed, not enumerated); a reported violation is real.",
        "level_note": "Liveness is decided only as 'no generated schedule leaves a waiter provably parked'; the Go scheduler is not owned. A second unit drives swamp/hydra-level "
                      "lifecycle actions (Swamp.Close, real idle close, Destroy, auto-destroy, graceful stop) through the in-process gateway while generated file-operation faults "
                      "(vfs shim) hit the close path; it asserts termination only: a swamp that stays registered and closing while no goroutine is inside Close/Destroy (two samples) "
                      "is a close that can never finish. The C16/C18 lifecycle harness additionally reports hangs it meets.",
        "assumptions": ["after all operation goroutines returned nobody calls CeaseVigil again",
                        "a swamp registered in hydra with IsClosing()=true and no goroutine inside swamp.Close/Destroy cannot finish closing"],
    },
    "C04": {
        "pkg": "files", "run": "^TestC04", "level": "exploration",
        "shards": {"quick": 2, "thorough": 16}, "timeout": {"quick": 900, "thorough": 3600},
        "technique": "mutation-based property-based testing (rapid) plus native go fuzzing of the .hyd loaders with a membership / resource oracle",
        "level_text": "Valid files written by the real writer (and hand-built legacy files) are truncated, bit-flipped, header-forged, spliced and re-checksummed; seven loading "
                      "entry points (NewFileReader, LoadIndex, ReadAllBlocks, ScanBlockHeaders, CalculateFragmentation, ReadSwampName, chronicler Load) must not panic, hang or "
                      "allocate more than 64 x size + 4 MiB, and without an error must return only records of the source files' write sets. Thorough adds a bounded native fuzz campaign.",
        "level_note": "Allocation is measured as the process TotalAlloc delta. Membership is not applied when a CRC was recomputed (CRC32 is not authentication). "
                      "Names and headers are unchecksummed by design and not asserted.",
        "assumptions": ["64x covers Snappy's maximum expansion times the copies the loader makes", "a CRC32 collision among random mutations is negligible"],
    },
    "C29": {
        "pkg": "files", "run": "^TestC29", "level": "exploration",
        "shards": {"quick": 2, "thorough": 16},
        "technique": "stateful property-based testing of file life cycles plus a differential check of the explorer scan against the set of written names",
        "level_text": "Swamp files in both formats are created, appended and compacted through every compaction entry point inside hashed data roots with distractor files; "
                      "ReadSwampName must equal the written name at every stage, and the explorer must list exactly the written swamps (island, path, totals, detail).",
        "level_note": "A name is valid when it has three non-empty parts without '/'; one swamp per name per root; xxhash64 collisions are ignored.",
        "assumptions": ["names up to 65535 bytes are storable; longer names must be rejected"],
    },
    "C23": {
        "units": [
            {"pkg": "files", "run": "^TestC23(Main$|Faults$|Witness)", "shards": {"quick": 2, "thorough": 16}},
            # n-th-operation I/O faults inside the migration (vfs shim)
            {"pkg": "files", "run": "^TestC23IOFault", "overlay": "vfs", "tags": ["verifvfs"], "shards": {"quick": 2, "thorough": 16}},
        ],
        "level": "exploration",
        "technique": "differential property-based testing: real V1 chronicler histories, the real migrator, then V1 Load against V2 Load through all treasure getters; generated damaged inputs",
        "level_text": "Legacy folders are produced by the real V1 chronicler from generated histories (many chunk files, in-place modifications, real and shadow deletes, all content "
                      "kinds), migrated with generated options (DryRun, Verify, DeleteOld, Parallel) and compared record by record with what V1 loads; failed or dry-run migrations "
                      "must leave the legacy folder byte-identical and no partial .hyd; damaged chunks, a directory at the target path and unencodable keys are injected.",
        "level_note": "Keys duplicated across chunk files (a genuine V1 artefact) accept any version V1 Load could return. A second unit (vfs shim) fails or shortens one or two "
                      "of the migration's own file operations (one-shot faults drawn from a fault-free run of the same root) and requires every swamp's records to stay loadable "
                      "from the legacy folder or from a complete .hyd, with truthful success/failure reporting. Faults in reads and in close() are not injected.",
        "assumptions": ["the harness drives V1 the way the swamp does (file-pointer callbacks)"],
    },
    "C14": {
        "pkg": "locks", "run": "^TestC14", "level": "exploration",
        "shards": {"quick": 4, "thorough": 16},
        "technique": "model-based property-based testing (deterministic step controller with parked-goroutine observation), concurrent timed scripts with a one-sided timing oracle, mutual-exclusion churn",
        "level_text": "Random step lists and concurrent scripts over 2-8 actors and 1-3 keys run against the real lock.New(): every observed grant, error and unlock result must be "
                      "explainable by an arrival-order model with sound TTL lower bounds (one monotonic clock, one-sided inequalities); stale/foreign/unknown unlocks must fail and "
                      "change nothing; every actor must come back (bounded absence of progress, 20 s).",
        "level_note": "Schedules are sampled, not enumerated; the head-cancel race is forced by back-to-back cancel and unlock. Gateway Lock/Unlock (TTL floor 1 s) is not exercised.",
        "assumptions": ["a runtime.Stack state of 'select' inside lock.Lock means the caller is enqueued", "Go timers never fire early"],
    },
    "C15": {
        "pkg": "locks", "run": "^TestC15", "level": "exploration", "overlay": "vsched", "tags": ["verifvsched"],
        "shards": {"quick": 4, "thorough": 16},
        "technique": "model-based property-based testing on a deterministic, shrinkable step sequence with Cond.Wait parking observation; concurrent acquire bursts (barrier-released goroutines) with rapid-drawn schedule perturbation at instrumented guard.go sites",
        "level_text": "Step lists of Start(waiting), Start(non-waiting), Release and duplicate/stale/foreign releases over 2-6 actors are checked after every step against a FIFO "
                      "unique-ticket model: who returned, who is parked, and CanExecute(holder). A second facet releases 2-8 waiting / non-waiting acquirers from a barrier "
                      "on a free or held guard under generated vsched plans: never two callers between a non-zero acquire and their release, CanExecute true for them, "
                      "every waiting acquirer returns, a non-waiting 0 only with an overlapping acquire/hold, guard free after each round.",
        "level_note": "The step facet samples sequentially-consistent step orders (each blocking acquire is observed parked); the burst facet perturbs real interleavings inside "
                      "guard.go (prefix actions over all instrumented sites) but does not enumerate them: detection of a racy acquire path is probabilistic, a reported violation is real.",
        "assumptions": ["actors only know ids they were given"],
    },
    "C28": {
        "pkg": "locks", "run": "^TestC28", "level": "exploration",
        "shards": {"quick": 1, "thorough": 4},
        "technique": "metamorphic heap-retention bound (slope of retained bytes over the number of distinct keys) on generated lock/unlock/expiry sequences",
        "level_text": "n distinct keys (n = 10^2..10^5, drawn key lengths, unlock vs TTL expiry mix, queued waiters, a few keys held throughout) are locked and released on a fresh "
                      "lock; after all watchdogs exited and two GCs the retained heap must grow by less than 16 bytes per key.",
        "level_note": "HeapAlloc noise is assumed far below 1.6 MB; the per-key map size read by reflection is diagnostic only.",
        "assumptions": ["watchdog exit is detected through the goroutine count"],
    },
    "C06": {
        "pkg": "kv", "run": "^TestC06", "level": "exploration",
        "shards": {"quick": 2, "thorough": 16},
        "technique": "model-based property-based testing of sequential RPC histories (in-process gateway, documentation-derived map model, watchdog)",
        "level_text": "Random 1-40-step single-client histories over every non-streaming data RPC run against the real gateway handlers through a wire round trip. Every response, "
                      "and after each step the full contents and existence of each swamp, must match a documentation-derived key-value model. A call that does not return within "
                      "10 s, or a recovered panic, is a violation.",
        "level_note": "Documentation gaps are modelled as allowed sets and counted as classes. Recorded defects are excluded at run time (the trigger depends on state) and kept in witnesses.",
        "assumptions": ["in-process rig equals server wiring (EngineV2, depth 1 / 1000)", "proto, /repo/docs and SDK comments are the specification"],
    },
    "C05": {
        "pkg": "kv", "run": "^TestC05", "level": "exploration",
        "shards": {"quick": 2, "thorough": 16},
        "technique": "round-trip property-based testing (no model): snapshot of all read paths before close vs. after reload",
        "level_text": "Random write histories over all value kinds (zero-like values forced to >= 25 %), increments, patches, slice ops and deletes on persistent swamps (write interval "
                      "1 s and 0). Before every close (the function idle eviction and graceful stop call, occasionally a real StopHydra + restart on the same root) six read paths "
                      "are snapshotted for all keys and must be byte-identical after the reload.",
        "level_note": "Symmetric read-side conversions are out of reach of a pure round trip; C06 covers them. The real idle-eviction timer is not exercised (C16 does).",
        "assumptions": ["CloseSwamp equals idle eviction / graceful stop (same function)"],
    },
    "C30": {
        "pkg": "kv", "run": "^TestC30", "level": "exploration",
        "shards": {"quick": 2, "thorough": 16},
        "technique": "reference-predicate property-based testing over an expiry state machine (call-interval semantics)",
        "level_text": "Histories set, slide, clear and reload expiries through Set, Increment metadata and PatchMeta, interleaved with every expiry-aware read and claim path "
                      "(expired-shift, expired-patch, expiry-ordered reads with windows, shift-matching on the expiration index, expiry filters, Get). All paths must agree with one "
                      "predicate (expiry != 0 and expiry < now over the call interval) and with the expiry the requests set, before and after reload.",
        "level_note": "Expiries within 5 s of now are never asserted either way. Client and server share one clock (in-process).",
        "assumptions": ["expired <=> expiry != 0 and expiry < now"],
    },
    "C22": {
        "pkg": "sdkapi", "run": "^TestC22", "level": "exploration",
        "shards": {"quick": 2, "thorough": 16},
        "technique": "reflect-built model types + round-trip / metamorphic property-based testing through the Go SDK over an in-memory gRPC connection",
        "level_text": "Struct types (key-only, single value, map-body, profile; 22 field kinds; metadata with and without omitempty; tag names incl. identifiers containing reserved "
                      "words) and values are generated, saved and read back through the real SDK against an in-process server; read-back equality is checked under a stated normal "
                      "form, and renaming a non-reserved body tag must change nothing that is read back.",
        "level_note": "Normal form: nil == empty for slices/maps/bytes, NaN == NaN, -0 == 0, value/profile times at seconds resolution (documented), metadata times at nanoseconds. "
                      "Times lie in 1971-2200; maps have string keys only.",
        "assumptions": ["the SDK must accept every generated catalog model (each follows the documented rules)"],
    },
    "C26": {
        "pkg": "sdkapi", "run": "^TestC26", "level": "exploration",
        "shards": {"quick": 4, "thorough": 16}, "timeout": {"quick": 1200, "thorough": 5400},
        "technique": "protobuf-descriptor-driven structural request fuzzing (rapid) with a watchdog / panic-log / system-lock / vigil / reload oracle",
        "level_text": "Wire-decodable requests for every RPC (each field valid, boundary or malformed) are sent in-process and through gRPC against a rig holding a sentinel swamp. "
                      "Per request: returns within 10 s, no escaped panic, no recovered panic answered as an empty success, system lock released, no leaked vigil; per case: "
                      "every touched swamp reloads equal to memory, read-only RPCs leave their target untouched, the sentinel stays exact; a batch facet adds graceful stop + restart.",
        "level_note": "Requests that only an in-process caller can build (nil list elements) are excluded: the wire cannot carry them. Process-killing inputs are run in child processes.",
        "assumptions": ["island id is consistent per swamp name"],
    },
    "C27": {
        "pkg": "sdkapi", "run": "^TestC27", "level": "exploration",
        "shards": {"quick": 2, "thorough": 16},
        "technique": "model-based state-machine property-based testing through the Go SDK over an in-memory gRPC connection",
        "level_text": "Histories of Hydrex Save (additions, removals, value changes, empty sets), Destroy and closes of the underlying swamps over <= 2 indexes, 4 domains and 6 keys are "
                      "checked after every action against a map model and its derived reverse index (GetCoreData / GetIndexData as sets).",
        "level_note": "Idle closing is replaced by explicit closes of the core and index swamps.",
        "assumptions": ["Save adds/updates core data (package documentation)"],
    },
    "C18": {
        "pkg": "life", "run": "^TestC18", "level": "exploration", "overlay": "all", "tags": ["verifvfs", "verifvsched"],
        "shards": {"quick": 16, "thorough": 16}, "timeout": {"quick": 1200, "thorough": 3000},
        "technique": "property-based testing of concurrent summon/close/destroy/cancel programs with rapid-drawn schedule perturbation at instrumented slot sites; instance-identity history oracle plus a write-handle oracle on the swamp file (vfs shim)",
        "level_text": "Goroutines summon 1-2 names through hydra.SummonSwamp while returned instances are Close()d or Destroy()ed and contexts are cancelled, under generated "
                      "pause/sleep/yield plans (a third of the cases use the hand-derived A/B/C slot shape). Every result is logged with instance identity and logical call/return "
                      "times. Two instances of a name whose certainly-live intervals intersect, or an instance served after its close had returned, is a violation. "
                      "A second facet runs the same programs on file-backed swamps where every summoner writes through its instance (before any teardown of it begins) and the "
                      "shim keeps write handles open 0-12 ms longer on close: two write handles open on one swamp file at the same time is a violation.",
        "level_note": "Detection is probabilistic (schedules are perturbed, not enumerated); a reported violation is real. Site names are hashes of the statement text; when a named statement is edited the plans pausing there become inert and the run says so (note + counter) instead of failing.",
        "assumptions": ["close-after-idle 600 s: nothing but the harness closes instances", "Destroy() is never issued on a handle already Close()d",
                        "harness writes go through an instance only before its teardown begins (later ones are C16's dead-instance finding)",
                        "write handles on a removed / renamed-over file no longer count for the path (chroniclerV2.Destroy leaks its handle on the unlinked file)"],
    },
    "C16": {
        "pkg": "life", "run": "^TestC16", "level": "exploration", "overlay": "vsched", "tags": ["verifvsched"],
        "shards": {"quick": 16, "thorough": 16}, "timeout": {"quick": 1500, "thorough": 3000},
        "technique": "property-based testing of concurrent writer/lifecycle programs through the gateway handlers (injected and real idle closes, auto-destroy, Destroy, modelled graceful stop and restart) with schedule perturbation; acknowledged-write history oracle after re-open",
        "level_text": "Bursts of concurrent Set/Increment/Patch writers alternate with Close, auto-destroy, Destroy, real idle eviction (1 s listener) and shutdown; afterwards every "
                      "swamp is re-opened from disk (or on a fresh engine over a snapshot of the root). Each acknowledged write must be visible unless a later or overlapping "
                      "write/delete/destroy of the key exists; partial removals (ShiftExpired taking only records with a past expiry, Delete/ShiftByKeys of a subset) "
                      "must leave the swamp and every remaining acknowledged write intact. Open design-level findings are excluded from the main facets and forced in witness facets.",
        "level_note": "Detection is probabilistic; a violation is real. A harness-issued Swamp.Close() on an instance without active vigils stands for an idle-listener decision; "
                      "shutdown is MarkShuttingDown -> drain -> StopHydra as server.Stop does it; process exit is a copy of the data root taken when StopHydra returns.",
        "assumptions": ["ShiftExpired is only issued while the swamp is quiet", "delete durability is not part of the statement and not asserted"],
    },
    "C19": {
        "pkg": "events", "run": "^TestC19", "level": "exploration", "overlay": "vsched", "tags": ["verifvsched"],
        "shards": {"quick": 8, "thorough": 16}, "timeout": {"quick": 900, "thorough": 3600},
        "technique": "randomised concurrent gRPC histories (writers + subscribers) against an acknowledged-change-log oracle with commit-order search, with schedule perturbation",
        "level_text": "Writer and subscriber programs are generated with rapid and executed over real gRPC (bufconn) against the in-process server. Per record, a search for a commit "
                      "order of the acknowledged changes consistent with program order and real time must reproduce every subscriber's event list (status, payloads, EventTime within "
                      "[call-1s, return+1s]); attach and detach boundaries are established by private sentinel and fence writes; stream integrity and attachment are always asserted.",
        "level_note": "Detection is probabilistic, the oracle is sound (an exhausted search or unknown write outcome is a skip). The OldTreasure clause and same-record Delete overlaps are "
                      "excluded while their findings are open. The thorough tier adds a -race child that only counts reports inside grpc or the gateway event callback.",
        "assumptions": ["gRPC delivers frames in order on one connection", "an event handed to the transport reaches the client within 20 s"],
    },
    "C09": {
        "pkg": "lin", "run": "^TestC09", "level": "exploration", "overlay": "vsched", "tags": ["verifvsched"],
        "shards": {"quick": 16, "thorough": 16}, "timeout": {"quick": 1200, "thorough": 3600},
        "technique": "rapid-generated concurrent client programs + schedule perturbation at instrumented sites + porcupine linearizability check against a sequential per-key model",
        "level_text": "Recorded request histories ([call, return] on one monotonic clock, arguments, responses, final reads) of 2-6 clients on shared keys are decided linearizable or "
                      "not by porcupine against a sequential model, in all three write modes (in-memory, write interval 1 s, immediate-write), with independent checks: sum of "
                      "acknowledged increments equals the final counter, impossible Set statuses, no (nil,nil) response, no recovered panic; a hammer facet runs N x M increments on one key.",
        "level_note": "Detection is probabilistic (schedules are perturbed, not enumerated), verdicts are sound. Porcupine timeouts and unprovable hangs are counted as skipped, never "
                      "as violations. Open findings are excluded on shared keys only and forced in witness facets.",
        "assumptions": ["one numeric family per key", "an anchor record keeps the swamp from auto-destroying", "an overwriting Set may answer UPDATED or NOTHING_CHANGED"],
    },
    "C10": {
        "pkg": "lin", "run": "^TestC10", "level": "exploration", "race": "always",
        "shards": {"quick": 16, "thorough": 16}, "timeout": {"quick": 1500, "thorough": 3600},
        "technique": "rapid-generated mixed read/write programs run in -race child processes; race-pair signatures, versioned-read oracle, crash detection",
        "level_text": "Generated programs (writers Set/Patch/Delete/Shift/bursts, readers Get/GetAll/GetByKeys/GetByIndex with cold index builds/streams with filters/Count) run in "
                      "child processes built with the race detector. Any child death (fatal error), recovered panic, (nil,nil) response, race pair outside a recorded signature, or a "
                      "read returning a (value, UpdatedBy) pair that no single Set wrote is a violation; the failing program is the replay.",
        "level_note": "Race-detector coverage is per executed interleaving. The child is built WITHOUT the vsched overlay (the instrumented atomic loads add happens-before edges that hide "
                      "reports). One root cause (unlocked treasure setters vs RLock-only getters) is recorded as a signature; pairs outside it are violations.",
        "assumptions": ["the test binary is built with -race and re-executes itself as child"],
    },
    "C11": {
        "pkg": "claims", "run": "^TestC11", "level": "exploration", "overlay": "vsched", "tags": ["verifvsched"],
        "shards": {"quick": 16, "thorough": 16}, "timeout": {"quick": 900, "thorough": 3600},
        "technique": "property-based concurrent histories (rapid) with schedule perturbation; a per-key real-time-respecting order oracle plus count and order clauses; a sequential exact-model facet",
        "level_text": "Generated swamps are raced by 2-5 claimers (ShiftExpired, ShiftMatching, PatchExpired) and 0-3 mutators (PatchTreasures, Set, Delete) through the in-process "
                      "gateway under drawn perturbation plans. Every acknowledged response and the quiescent state (GetAll + all index listings) must be explained, per key, by some "
                      "real-time-respecting order of a sequential claim specification; per caller the count bound and index order are checked; a sequential facet demands exactly "
                      "the first matching records.",
        "level_note": "Detection is probabilistic; a reported violation is a property of the recorded history. Indexes and buckets are pre-built (the cold-build race is C10's). Writes to an "
                      "already-removed record are judged by C09. Two recorded findings are excluded from the main facet and tolerated by shape in the full-domain facet.",
        "assumptions": ["generated expiries are at least 5 s away from now", "keys are never re-inserted by the harness"],
    },
    "C12": {
        "pkg": "claims", "run": "^TestC12", "level": "exploration", "overlay": "vsched", "tags": ["verifvsched"],
        "shards": {"quick": 8, "thorough": 16}, "timeout": {"quick": 900, "thorough": 3600},
        "technique": "property-based concurrent cap-bearing batches with schedule perturbation; quiescent count oracle; a sequential four-cell budget model",
        "level_text": "Rounds of 2-6 concurrent batches sharing one Cap (PatchTreasures, PatchExpired, ShiftMatching; moves in/out/in-in/out-out, creates) run under drawn perturbation "
                      "plans; after every round the number of records matching the cap filter, computed from GetAll by an independent evaluator, must be <= MaxMatching. A sequential "
                      "facet checks per-key statuses, CapReached, bodies and count against the documented four-cell budget rule.",
        "level_note": "Counts are read only at quiescence (a mid-round scan is not atomic). Cap-less writers only move records out, as the statement presupposes.",
        "assumptions": ["the cap filter is body-only", "created records carry a seed body"],
    },
    "C13": {
        "pkg": "codec", "run": "^TestC13", "level": "exploration",
        "shards": {"quick": 2, "thorough": 16}, "timeout": {"quick": 900, "thorough": 3600},
        "technique": "rapid property-based testing + native go fuzzing of msgpackpatch against an independent ordered-tree reference model of the documented semantics",
        "level_text": "Byte-level msgpack bodies (every leaf code, nested containers) x op lists (all 8 kinds, paths derived from the body, well-formed and malformed values) x conditions "
                      "are applied by the real ApplyWithCondition and by an independent model: error class, first-failing-op and condition-first rules, tree equality with untouched "
                      "leaf bytes exact, INC keeping the numeric code, input never mutated, success = exactly one well-formed value. The same scenarios run through swamp.PatchFields; "
                      "hostile declared counts run in a memory-limited child; thorough adds a native fuzz campaign.",
        "level_note": "Where the documentation is silent (INC overflow, fixint class, nil/ext comparisons, paths into containers spliced by an earlier op) cases are counted as unspecified and only the generic clauses are asserted.",
        "assumptions": ["string-keyed maps with unique keys", "body nesting <= 4"],
    },
    "C24": {
        "pkg": "codec", "run": "^TestC24", "level": "exploration",
        "shards": {"quick": 4, "thorough": 16}, "timeout": {"quick": 900, "thorough": 7200},
        "technique": "rapid property-based testing + native go fuzzing of the compressor: round-trip and corruption oracle under a hang watchdog",
        "level_text": "Payloads from 0 to 1 MiB x 4 algorithms (plus a large facet: 2^k + d bytes up to 128 MiB + 1, round trip only): Decompress(Compress(x)) == x with inputs unmodified, and a compressed form "
                      "handed out earlier stays byte-identical while the compressor is used again from the same instance, another instance and other goroutines; each of 1-3 damage steps (truncate, bit flips, window overwrite, "
                      "appended garbage, region swap) must give an error or exactly x, never empty or different data with a nil error; a separate facet bounds allocation for small "
                      "damaged inputs; thorough adds a native fuzz campaign.",
        "level_note": "With checksums detection of corruption is probabilistic by design (~2^-32). Snappy block format has no integrity check and LZ4 frame truncation at field boundaries "
                      "reads as clean EOF: both are recorded findings, excluded from the main damage clause and kept as witnesses.",
        "assumptions": ["damage = local corruptions, not substitution of another valid frame"],
    },
}
