#!/bin/bash
# usage: lib/seed_confirm.sh <ID> <seed-out-dir> <demo-file-name> <dest path relative to repo> <pkg to test> <-run regex> [extra packages to run the existing tests of]
# Confirms a seeded change in a scratch worktree of /repo HEAD: (1) patch applies + builds, (2) existing tests of the touched packages pass with it,
# (3) the demonstration FAILS with the change, (4) PASSES without it. Then copies everything to /verif/seeded/<ID>/ and writes confirm.log.
set -u
id=${SEED_NAME:-$1}; out=$2; demo=$3; dest=$4; pkg=$5; run=$6; shift 6
wt=$(mktemp -d /tmp/wt-seed-XXXX)
git -C /repo worktree add --detach "$wt" HEAD -q || exit 2
trap 'git -C /repo worktree remove --force "$wt" >/dev/null 2>&1; rm -rf "$wt"' EXIT
export GOPROXY=off
log=/verif/seeded/$id/confirm.log
mkdir -p /verif/seeded/$id
{
echo "== $(date -u) repo HEAD $(git -C /repo log --format=%h -1)"
cd "$wt"
mkdir -p "$(dirname "$wt/$dest")"; cp "$out/$demo" "$wt/$dest"
echo "== demo WITHOUT the change (must pass)"
rm -rf app/server/gateway/data; go test -vet=off -count=1 -run "$run" "$pkg" 2>&1 | tail -5; r0=${PIPESTATUS[0]}
echo "== apply patch"
git apply "$out/patch.diff" || { echo "PATCH DOES NOT APPLY"; exit 3; }
go build ./... || { echo "BUILD FAILS"; exit 3; }
echo "== demo WITH the change (must fail)"
rm -rf app/server/gateway/data; go test -vet=off -count=1 -run "$run" "$pkg" 2>&1 | tail -15; r1=${PIPESTATUS[0]}
rm -f "$wt/$dest"; ls "$(dirname "$wt/$dest")"/*.go >/dev/null 2>&1 || { rmdir "$(dirname "$wt/$dest")" 2>/dev/null; pkg=""; }
echo "== existing tests of touched packages WITH the change (must pass)"
rm -rf app/server/gateway/data; go test -vet=off -count=1 $pkg "$@" 2>&1 | grep -E "^(ok|FAIL|---)" | head -20; r2=${PIPESTATUS[0]}
echo "RESULT demo_without=$r0 demo_with=$r1 existing_with=$r2"
} > "$log" 2>&1
cp "$out/patch.diff" "$out/$demo" "$out/NOTES.md" /verif/seeded/$id/ 2>/dev/null
tail -3 "$log"
