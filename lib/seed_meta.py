#!/usr/bin/env python3
"""usage: lib/seed_meta.py <seed dir name> <property> <breaks> <needs> <change> <checks_run> <detected_by> [note]
Writes seeded/<name>/meta.json; the confirmation result line is taken from confirm.log."""
import json, sys, os, re
name, prop, breaks, needs, change, checks, detected = sys.argv[1:8]
note = sys.argv[8] if len(sys.argv) > 8 else None
d = os.path.join(os.path.dirname(os.path.dirname(os.path.abspath(__file__))), "seeded", name)
log = open(os.path.join(d, "confirm.log")).read()
res = re.findall(r"^RESULT .*$", log, re.M)
meta = {
 "property": prop, "round": 4 if name.endswith("-r4") else (3 if name.endswith("-r3") else (2 if name.endswith("-r2") else 1)),
 "breaks": breaks, "needs_to_manifest": needs, "change": change,
 "confirmed": {"how": "lib/seed_confirm.sh in a scratch worktree of /repo HEAD: patch applies and builds; the demonstration passes without the change and fails with it; the existing tests of the touched packages pass with it",
               "result": res[-1] if res else "?", "log": "confirm.log"},
 "checks_run": checks, "detected_by": detected,
 "source": "fresh sub-agent given only the property record, one-line descriptions of the earlier seeded changes to avoid (and, in round 3, a preferred kind of trigger), and a scratch worktree",
}
if note: meta["note"] = note
json.dump(meta, open(os.path.join(d, "meta.json"), "w"), indent=1)
print("wrote", os.path.join(d, "meta.json"))
