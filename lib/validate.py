#!/usr/bin/env python3
import json, sys, glob, os
import jsonschema
ROOT = os.path.dirname(os.path.dirname(os.path.abspath(__file__)))
jsonschema.validate(json.load(open(ROOT + '/MANIFEST.json')), json.load(open('/root/.vp/MANIFEST.schema.json')))
es = json.load(open('/root/.vp/EVIDENCE.schema.json'))
for f in sorted(glob.glob(ROOT + '/evidence/*.json')):
    jsonschema.validate(json.load(open(f)), es)
    print('valid', os.path.basename(f))
print('manifest valid')
