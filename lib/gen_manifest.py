#!/usr/bin/env python3
"""Regenerates /verif/MANIFEST.json from lib/registry.py and lib/not_applicable.json."""
import json, os, sys
ROOT = os.path.dirname(os.path.dirname(os.path.abspath(__file__)))
sys.path.insert(0, os.path.join(ROOT, "lib"))
from registry import CHECKS

props = [json.loads(l)["id"] for l in open(os.path.join(ROOT, "properties.jsonl"))]
na_path = os.path.join(ROOT, "lib", "not_applicable.json")
na = json.load(open(na_path)) if os.path.exists(na_path) else {}

checks = []
for pid in props:
    if pid not in CHECKS:
        continue
    c = CHECKS[pid]
    checks.append({
        "property_id": pid,
        "quick_cmd": f"./check {pid} --tier quick",
        "thorough_cmd": f"./check {pid} --tier thorough",
        "evidence_file": f"/verif/evidence/{pid}.json",
        "replay_cmd_template": f"./check {pid} --replay {{path}}",
        "engine": "harness",
        "level_claimed": {"category": c.get("level", "exploration"), "text": c["level_text"], "design_ref": c.get("design_ref", "DESIGN.md §2 " + pid)},
        "level_note": c["level_note"],
        "technique": c["technique"],
    })
not_app = []
for pid in props:
    if pid in CHECKS:
        continue
    not_app.append({"property_id": pid, "reason": na.get(pid, "check not built yet in this session; no claim is made")})

m = {
    "version": 1,
    "setup_cmd": "./setup.sh",
    "hooks": {
        "guard": "verif-overlay",
        "enable": "go test -tags verif -overlay /verif/.work/run/<pid>/ov/<kind>/overlay.json (the overlay is regenerated from /repo's working tree by harness/cmd/instrument on every check run; nothing is committed to /repo)",
        "baseline_off_cmd": "cd /repo && go build ./... && go test -vet=off -count=1 -timeout 25m ./... && cd sdk/go/hydraidego && go test -vet=off -count=1 -timeout 25m ./...",
        "source_commits": [],
        "add_only": True,
    },
    "engines": [{
        "name": "harness", "path": "/verif/harness",
        "serves_properties": [c["property_id"] for c in checks],
        "kind_free_text": "external Go module (replace => /repo): rapid v1.3.0 generators/state machines, native go fuzz targets, "
                          "porcupine and the race detector as oracles over generated runs; go/ast instrumenter producing a go build overlay",
    }],
    "checks": checks,
    "not_applicable": not_app,
    "notes": "All checks are property-based tests / fuzzers with explicit oracles (see DESIGN.md). Exit codes: 0 held, 1 violation, 2 inconclusive.",
}
json.dump(m, open(os.path.join(ROOT, "MANIFEST.json"), "w"), indent=1)
print("checks:", len(checks), "not_applicable:", len(not_app))
