#!/bin/sh
# setup_cmd: builds the framework from files on disk only (offline) and warms the Go build cache.
set -e
cd "$(dirname "$0")"
export GOFLAGS=-mod=mod GOPROXY=off GOWORK=off
unset GOTOOLCHAIN GOSUMDB
mkdir -p .work/bin evidence
cd harness
# checksums of hydraide's dependencies
sort -u /repo/go.sum go.sum -o go.sum 2>/dev/null || cp /repo/go.sum go.sum
go build -o ../.work/bin/instrument ./cmd/instrument 2>/dev/null || true
go vet ./internal/... >/dev/null 2>&1 || true
go test -vet=off -count=1 -run '^$' ./... >/dev/null 2>&1 || true
echo setup done
